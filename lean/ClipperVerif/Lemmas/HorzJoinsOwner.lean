/-
The record table of `Model/HorzJoins.lean` seen through `Model/Owner.lean` (property C04): `toTable` forgets the `OutPt` indices
(`pts` becomes `hasPts`, a null `splits` pointer becomes the empty list), and `GetRealOutRec`, `IsValidOwner`, `SetOwner` of the
join model are the functions of the ownership model on that view.  Also: what `MoveSplits` and the split branch do to the
`splits` lists (property C04's `CheckSplitOwner` reads them).  Helper file of `Props/C02Horz.lean`.  Core Lean only.
-/
import ClipperVerif.Lemmas.HorzJoinsFrame
import ClipperVerif.Lemmas.OwnerTerm
import ClipperVerif.Lemmas.OwnerSetOwner
namespace Clipper.Model.HorzJoins
open Clipper

/-- an `OutRec` as `Model/Owner.lean` sees it -/
def toOwnerRec (r : ORec) : Owner.OutRec :=
  { owner := r.owner, splits := r.splits.getD [], isOpen := r.isOpen, hasPts := r.pts.isSome }

/-- `outrec_list_` as `Model/Owner.lean` sees it -/
def toTable (H : Heap) : Owner.Table := H.recs.map toOwnerRec

theorem toTable_get (H : Heap) (i : Nat) : (toTable H)[i]? = (H.recs[i]?).map toOwnerRec := by
  simp [toTable]

theorem toTable_size (H : Heap) : (toTable H).size = H.recs.size := by simp [toTable]

theorem orec_ok {H : Heap} {i : Nat} {r : ORec} : H.orec i = .ok r ↔ H.recs[i]? = some r := by
  unfold Heap.orec; cases H.recs[i]? <;> simp

/-- **`GetRealOutRec` of the join model is `GetRealOutRec` of the ownership model** -/
theorem getRealOutRec_view (H : Heap) : ∀ (f : Nat) (x : Option Nat) (v : Option Nat),
    getRealOutRec H f x = .ok v ↔ Owner.getRealOutRec (toTable H) f x = some v
  | 0, x, v => by simp [getRealOutRec, Owner.getRealOutRec]
  | f + 1, none, v => by simp [getRealOutRec, Owner.getRealOutRec]
  | f + 1, some i, v => by
    rw [getRealOutRec, Owner.getRealOutRec, toTable_get]
    cases h : H.recs[i]? with
    | none => simp [Heap.orec, h]
    | some r =>
      simp only [Heap.orec, h, Option.map_some]
      by_cases hp : r.pts.isSome = true
      · simp [hp, toOwnerRec]
      · simp only [hp, toOwnerRec]
        exact getRealOutRec_view H f r.owner v

/-- **`IsValidOwner`** likewise -/
theorem isValidOwner_view (H : Heap) (i : Nat) : ∀ (f : Nat) (x : Option Nat) (v : Bool),
    isValidOwner H i f x = .ok v ↔ Owner.isValidOwner (toTable H) f i x = some v
  | 0, x, v => by simp [isValidOwner, Owner.isValidOwner]
  | f + 1, none, v => by simp [isValidOwner, Owner.isValidOwner]
  | f + 1, some t, v => by
    rw [isValidOwner, Owner.isValidOwner, toTable_get]
    by_cases ht : t = i
    · simp [ht]
    · simp only [ht, if_false]
      cases h : H.recs[t]? with
      | none => simp [Heap.orec, h]
      | some r =>
        simp only [Heap.orec, h, Option.map_some, toOwnerRec]
        exact isValidOwner_view H i f r.owner v

theorem toTable_updRec {H H' : Heap} {i : Nat} {g : ORec → ORec} {g' : Owner.OutRec → Owner.OutRec}
    (h : H.updRec i g = .ok H') (hg : ∀ r, toOwnerRec (g r) = g' (toOwnerRec r)) :
    toTable H' = (toTable H).modify i g' := by
  obtain ⟨hi, _, hs, hget⟩ := updRec_ok h
  apply Array.ext'
  apply List.ext_getElem?
  intro j
  rw [Array.getElem?_toList, Array.getElem?_toList, toTable_get, hget j, Array.getElem?_modify, toTable_get]
  by_cases hj : j = i
  · subst hj; cases H.recs[j]? <;> simp [hg]
  · simp [hj, Ne.symm hj]

/-- the first loop of **`SetOwner`** likewise -/
theorem skipDeadOwners_view (no : Nat) : ∀ (f : Nat) (H : Heap),
    (∀ H', skipDeadOwners no f H = .ok H' → Owner.skipDeadOwners (toTable H) f no = some (toTable H')) ∧
    (∀ T', Owner.skipDeadOwners (toTable H) f no = some T' → ∃ H', skipDeadOwners no f H = .ok H' ∧ toTable H' = T')
  | 0, H => by simp [skipDeadOwners, Owner.skipDeadOwners]
  | f + 1, H => by
    rw [skipDeadOwners, Owner.skipDeadOwners, toTable_get]
    cases h : H.recs[no]? with
    | none => simp [Heap.orec, h]
    | some r =>
      simp only [Heap.orec, h, Option.map_some]
      cases ho : r.owner with
      | none => simp [toOwnerRec, ho]
      | some o =>
        simp only [toOwnerRec, ho]
        rw [toTable_get]
        cases h2 : H.recs[o]? with
        | none => simp
        | some orc =>
          simp only [Option.map_some]
          have hh : (toOwnerRec orc).hasPts = orc.pts.isSome := rfl
          have hw : (toOwnerRec orc).owner = orc.owner := rfl
          by_cases hp : orc.pts.isSome = true
          · simp [hp, hh]
          · simp only [hp, hh, hw]
            have hlt : no < H.recs.size := by
              by_cases hh : no < H.recs.size
              · exact hh
              · simp [Array.getElem?_eq_none (Nat.le_of_not_lt hh)] at h
            obtain ⟨H1, h1⟩ := updRec_of_lt H (fun x => { x with owner := orc.owner }) hlt
            have e := toTable_updRec (g' := fun x => { x with owner := orc.owner }) h1 (by intro r; rfl)
            simp only [h1, Bool.false_eq_true, if_false]
            have ih := skipDeadOwners_view no f H1
            rw [e] at ih
            exact ih

theorem skipDeadOwners_size (no : Nat) : ∀ (f : Nat) (H H' : Heap), skipDeadOwners no f H = .ok H' → H'.recs.size = H.recs.size
  | 0, _, _, h => by simp [skipDeadOwners] at h
  | f + 1, H, H', h => by
    unfold skipDeadOwners at h
    cases hr : H.orec no with
    | error e => simp [hr] at h
    | ok r =>
      simp only [hr] at h
      cases ho : r.owner with
      | none => simp only [ho] at h; cases h; rfl
      | some o =>
        simp only [ho] at h
        cases hoo : H.orec o with
        | error e => simp [hoo] at h
        | ok orc =>
          simp only [hoo] at h
          split at h
          · cases h; rfl
          · cases hu : H.updRec no (fun x => { x with owner := orc.owner }) with
            | error e => simp [hu] at h
            | ok H1 =>
              simp only [hu] at h
              exact (skipDeadOwners_size no f H1 H' h).trans (updRec_ok hu).2.2.1

/-- **`SetOwner` of the join model is `SetOwner` of the ownership model** (with the fuel the termination theorem
`Owner.setOwner_total` is stated for): if it returns, the view of the result is what the ownership model computes. -/
theorem setOwner_view {H H' : Heap} {i no : Nat} (h : setOwner H i no = .ok H') :
    Owner.setOwner (toTable H) ((toTable H).size + 2) i no = some (toTable H') := by
  unfold setOwner at h
  simp only [bind_ok] at h
  obtain ⟨H1, h1, valid, hv, r, hr, H2, h2, h3⟩ := h
  have v1 := (skipDeadOwners_view no _ H).1 H1 h1
  have v2 := (isValidOwner_view H1 i _ _ valid).1 hv
  have hr' : (toTable H1)[i]? = some (toOwnerRec r) := by rw [toTable_get, orec_ok.1 hr]; rfl
  unfold Owner.setOwner
  rw [toTable_size, v1]
  simp only [v2, hr']
  unfold breakCycle at h2
  cases valid with
  | true =>
    simp only [if_true, Except.ok.injEq] at h2; subst h2
    simp only [if_true]
    exact congrArg some (toTable_updRec (g' := fun x => { x with owner := some no }) h3 (by intro r; rfl)).symm
  | false =>
    simp only [Bool.false_eq_true, if_false] at h2 ⊢
    have e2 := toTable_updRec (g' := fun x => { x with owner := (toOwnerRec r).owner }) h2 (by intro r'; rfl)
    have e3 := toTable_updRec (g' := fun x => { x with owner := some no }) h3 (by intro r'; rfl)
    rw [e3, e2]

/-! ## the `splits` lists (what C04's `CheckSplitOwner` reads) -/

/-- `outrec->splits` as a list (`[]` for a null pointer), as in `Model/Owner.lean` -/
def splitsOf (H : Heap) (i : Nat) : List Nat := ((H.recs[i]?).map (fun r => r.splits.getD [])).getD []

theorem splitsOf_view (H : Heap) (i : Nat) : splitsOf H i = (((toTable H)[i]?).map (·.splits)).getD [] := by
  rw [toTable_get]; unfold splitsOf; cases H.recs[i]? <;> simp [toOwnerRec]

/-- **`MoveSplits(fromOr, toOr)`**: the receiving record's list is extended by the giving record's entries in order, the giving
record's list is emptied, every other record keeps its list; owners and `pts` are untouched.  (In the view of `Model/Owner.lean`
there is no difference between a null and an empty `splits`.) -/
theorem moveSplits_spec {H H' : Heap} {a b : Nat} (hab : a ≠ b) (h : moveSplits H a b = .ok H') :
    splitsOf H' b = splitsOf H b ++ splitsOf H a ∧ splitsOf H' a = [] ∧ (∀ k, k ≠ a → k ≠ b → splitsOf H' k = splitsOf H k) ∧
    H'.ops = H.ops ∧ H'.recs.size = H.recs.size ∧
    (∀ k : Nat, (H'.recs[k]?).map (fun (r : ORec) => (r.pts, r.owner, r.hasEdges, r.isOpen)) = (H.recs[k]?).map (fun (r : ORec) => (r.pts, r.owner, r.hasEdges, r.isOpen))) := by
  unfold moveSplits at h
  simp only [bind_ok] at h
  obtain ⟨fr, hfr, h⟩ := h
  have hfr' := orec_ok.1 hfr
  cases hs : fr.splits with
  | none =>
    simp only [hs, pure, Except.pure, Except.ok.injEq] at h; subst h
    have : splitsOf H a = [] := by unfold splitsOf; simp [hfr', hs]
    exact ⟨by simp [this], this, fun _ _ _ => rfl, rfl, rfl, fun _ => rfl⟩
  | some fs =>
    simp only [hs, bind_ok] at h
    obtain ⟨H1, h1, h2⟩ := h
    obtain ⟨hb, o1, s1, g1⟩ := updRec_ok h1
    obtain ⟨_, o2, s2, g2⟩ := updRec_ok h2
    have ha : splitsOf H a = fs := by unfold splitsOf; simp [hfr', hs]
    have hrb : H.recs[b]? = some H.recs[b] := by simp [hb]
    refine ⟨?_, ?_, ?_, o2.trans o1, s2.trans s1, ?_⟩
    · rw [ha]
      unfold splitsOf
      rw [g2 b, if_neg (Ne.symm hab), g1 b, if_pos rfl, hrb]
      simp
    · unfold splitsOf
      rw [g2 a, if_pos rfl, g1 a, if_neg hab, hfr']; simp
    · intro k hka hkb
      unfold splitsOf
      rw [g2 k, if_neg hka, g1 k, if_neg hkb]
    · intro k
      rw [g2 k, g1 k]
      cases H.recs[k]? with
      | none => split <;> split <;> simp
      | some r => split <;> split <;> simp

/-- nothing changed in any `splits` list -/
def SameSplits (H H' : Heap) : Prop := ∀ k, splitsOf H' k = splitsOf H k

theorem SameSplits.refl (H : Heap) : SameSplits H H := fun _ => rfl
theorem SameSplits.trans {A B C : Heap} (h1 : SameSplits A B) (h2 : SameSplits B C) : SameSplits A C :=
  fun k => (h2 k).trans (h1 k)

theorem sameSplits_of_recs {H H' : Heap} (h : H'.recs = H.recs) : SameSplits H H' := by
  intro k; unfold splitsOf; rw [h]

theorem sameSplits_updRec {H H' : Heap} {i : Nat} {g : ORec → ORec} (h : H.updRec i g = .ok H')
    (hg : ∀ r, (g r).splits = r.splits) : SameSplits H H' := by
  obtain ⟨_, _, _, hget⟩ := updRec_ok h
  intro k; unfold splitsOf; rw [hget k]
  by_cases hk : k = i
  · simp only [hk, if_true]; cases H.recs[i]? <;> simp [hg]
  · simp [hk]

/-- the two tables differ at most in `owner` fields -/
def OnlyOwners (H H' : Heap) : Prop :=
  H'.recs.size = H.recs.size ∧
  ∀ k : Nat, (H'.recs[k]?).map (fun (r : ORec) => (r.pts, r.splits, r.hasEdges, r.isOpen)) =
    (H.recs[k]?).map (fun (r : ORec) => (r.pts, r.splits, r.hasEdges, r.isOpen))

theorem OnlyOwners.refl (H : Heap) : OnlyOwners H H := ⟨rfl, fun _ => rfl⟩
theorem OnlyOwners.trans {A B C : Heap} (h1 : OnlyOwners A B) (h2 : OnlyOwners B C) : OnlyOwners A C :=
  ⟨h2.1.trans h1.1, fun k => (h2.2 k).trans (h1.2 k)⟩

theorem onlyOwners_updRec {H H' : Heap} {i : Nat} {o : Option Nat} (h : H.updRec i (fun x => { x with owner := o }) = .ok H') :
    OnlyOwners H H' := by
  obtain ⟨_, _, z, g⟩ := updRec_ok h
  refine ⟨z, fun k => ?_⟩
  rw [g k]
  by_cases hk : k = i
  · simp only [hk, if_true]; cases H.recs[i]? <;> simp
  · simp [hk]

theorem OnlyOwners.sameSplits {H H' : Heap} (h : OnlyOwners H H') : SameSplits H H' := by
  intro k
  have := h.2 k
  unfold splitsOf
  cases h1 : H'.recs[k]? <;> cases h2 : H.recs[k]? <;> simp [h1, h2] at this ⊢
  rw [this.2.1]

theorem OnlyOwners.pts {H H' : Heap} (h : OnlyOwners H H') {k : Nat} {rc : ORec} (hk : H.recs[k]? = some rc) :
    ∃ rc', H'.recs[k]? = some rc' ∧ rc'.pts = rc.pts := by
  have := h.2 k
  rw [hk] at this
  cases h1 : H'.recs[k]? with
  | none => simp [h1] at this
  | some rc' => simp [h1] at this; exact ⟨rc', rfl, this.1⟩

theorem skipDeadOwners_onlyOwners (no : Nat) : ∀ (f : Nat) (H H' : Heap), skipDeadOwners no f H = .ok H' → OnlyOwners H H'
  | 0, _, _, h => by simp [skipDeadOwners] at h
  | f + 1, H, H', h => by
    unfold skipDeadOwners at h
    cases hr : H.orec no with
    | error e => simp [hr] at h
    | ok r =>
      simp only [hr] at h
      cases ho : r.owner with
      | none => simp only [ho] at h; cases h; exact OnlyOwners.refl _
      | some o =>
        simp only [ho] at h
        cases hoo : H.orec o with
        | error e => simp [hoo] at h
        | ok orc =>
          simp only [hoo] at h
          split at h
          · cases h; exact OnlyOwners.refl _
          · cases hu : H.updRec no (fun x => { x with owner := orc.owner }) with
            | error e => simp [hu] at h
            | ok H1 =>
              simp only [hu] at h
              exact (onlyOwners_updRec hu).trans (skipDeadOwners_onlyOwners no f H1 H' h)

/-- `SetOwner` writes `owner` fields only -/
theorem setOwner_onlyOwners {H H' : Heap} {i no : Nat} (h : setOwner H i no = .ok H') : OnlyOwners H H' := by
  unfold setOwner at h
  simp only [bind_ok] at h
  obtain ⟨H1, h1, valid, _, r, _, H2, h2, h3⟩ := h
  have a := skipDeadOwners_onlyOwners _ _ _ _ h1
  have b : OnlyOwners H1 H2 := by
    unfold breakCycle at h2
    split at h2
    · cases h2; exact OnlyOwners.refl _
    · exact onlyOwners_updRec h2
  exact (a.trans b).trans (onlyOwners_updRec h3)

theorem keepPts_sameSplits {H H' : Heap} {o1 o2 op1 : Nat} (h : keepPts H o1 o2 op1 = .ok H') : SameSplits H H' ∧ H'.recs.size = H.recs.size := by
  unfold keepPts at h
  cases hp : ptsOfRec H o1 with
  | error e => simp [hp] at h
  | ok p1 =>
    simp only [hp] at h
    cases hn : H.node p1 with
    | error e => simp [hn] at h
    | ok np1 =>
      simp only [hn] at h
      split at h
      · cases hu : H.updRec o1 (fun x => { x with pts := some op1 }) with
        | error e => simp [hu] at h
        | ok H1 =>
          simp only [hu] at h
          obtain ⟨_, _, _, _, er, _⟩ := upd_orec_eqs h
          exact ⟨(sameSplits_updRec hu (fun _ => rfl)).trans (sameSplits_of_recs er), by rw [er]; exact (updRec_ok hu).2.2.1⟩
      · cases h; exact ⟨SameSplits.refl _, rfl⟩

theorem splitOwnerChoice_sameSplits {H H' : Heap} {o1 o2 p1 p2 : Nat} {a b : Bool} (h : splitOwnerChoice H o1 o2 p1 p2 a b = .ok H') :
    SameSplits H H' ∧ H'.recs.size = H.recs.size := by
  unfold splitOwnerChoice at h
  split at h
  · cases h1 : H.updRec o1 (fun x => { x with pts := some p2 }) with
    | error e => simp [h1] at h
    | ok H1 =>
      simp only [h1] at h
      cases h2 : H1.updRec o2 (fun x => { x with pts := some p1 }) with
      | error e => simp [h2] at h
      | ok H2 =>
        simp only [h2] at h
        cases h3 : fixOutRecPts H2 o1 with
        | error e => simp [h3] at h
        | ok H3 =>
          simp only [h3] at h
          cases h4 : fixOutRecPts H3 o2 with
          | error e => simp [h4] at h
          | ok H4 =>
            simp only [h4] at h
            have r3 := (fixOutRecPts_frame h3).2
            have r4 := (fixOutRecPts_frame h4).2
            refine ⟨((((sameSplits_updRec h1 (fun _ => rfl)).trans (sameSplits_updRec h2 (fun _ => rfl))).trans
              (sameSplits_of_recs r3)).trans (sameSplits_of_recs r4)).trans (sameSplits_updRec h (fun _ => rfl)), ?_⟩
            rw [(updRec_ok h).2.2.1, r4, r3, (updRec_ok h2).2.2.1, (updRec_ok h1).2.2.1]
  · split at h
    · exact ⟨sameSplits_updRec h (fun _ => rfl), (updRec_ok h).2.2.1⟩
    · cases hr : H.orec o1 with
      | error e => simp [hr] at h
      | ok r1 => simp only [hr] at h; exact ⟨sameSplits_updRec h (fun _ => rfl), (updRec_ok h).2.2.1⟩

/-- **the `splits` bookkeeping of the split branch under `using_polytree_`**: the new record is appended to the `splits`
list of `or1` — whichever of the two rings `or1` ends up holding — and to no other list -/
theorem splitOwners_splits {inside : List Pt → List Pt → Bool} {H H' : Heap} {o1 o2 : Nat} (h : splitOwners inside H o1 o2 = .ok H') :
    splitsOf H' o1 = splitsOf H o1 ++ [o2] ∧ (∀ k, k ≠ o1 → splitsOf H' k = splitsOf H k) ∧ H'.recs.size = H.recs.size := by
  unfold splitOwners at h
  simp only [bind_ok] at h
  obtain ⟨p1, _, p2, _, ring1, _, ring2, _, H1, h1, h2⟩ := h
  obtain ⟨ss, sz⟩ := splitOwnerChoice_sameSplits h1
  obtain ⟨hi, _, hs, hget⟩ := updRec_ok h2
  have hr : H1.recs[o1]? = some H1.recs[o1] := by simp [hi]
  refine ⟨?_, ?_, by rw [hs, sz]⟩
  · rw [← ss o1]
    unfold splitsOf
    rw [hget o1, if_pos rfl, hr]; simp
  · intro k hk
    rw [← ss k]
    unfold splitsOf
    rw [hget k, if_neg hk]

/-- the whole split branch: a record is appended to `outrec_list_`; under `using_polytree_` it is appended to `or1->splits`
and to no other list, otherwise no list changes -/
theorem splitBranch_splits {inside : List Pt → List Pt → Bool} {tree : Bool} {H H' : Heap} {j : HorzJoin} {or1 : Option Nat} {op1b : Nat}
    (hlt : ∀ o1, or1 = some o1 → o1 < H.recs.size) (h : splitBranch inside tree H j or1 op1b = .ok H') :
    ∃ o1, or1 = some o1 ∧ H'.recs.size = H.recs.size + 1 ∧
      splitsOf H' o1 = (if tree then splitsOf H o1 ++ [H.recs.size] else splitsOf H o1) ∧
      splitsOf H' H.recs.size = [] ∧ (∀ k, k ≠ o1 → k ≠ H.recs.size → splitsOf H' k = splitsOf H k) := by
  unfold splitBranch at h
  simp only [bind_ok] at h
  obtain ⟨H1, h1, H2, h2, h⟩ := h
  cases or1 with
  | none => simp at h
  | some o1 =>
    simp only [bind_ok] at h
    obtain ⟨H3, h3, h⟩ := h
    -- the table after NewOutRec
    have hnew : ∀ k, splitsOf (newOutRec H).1 k = splitsOf H k := by
      intro k
      unfold splitsOf newOutRec
      simp only [Array.getElem?_push]
      by_cases hk : k = H.recs.size
      · subst hk; simp
      · simp [hk]
    have hnewsz : (newOutRec H).1.recs.size = H.recs.size + 1 := by simp [newOutRec]
    have s1 := sameSplits_updRec h1 (fun _ => rfl)
    have z1 := (updRec_ok h1).2.2.1
    have r2 := (fixOutRecPts_frame h2).2
    obtain ⟨s3, z3⟩ := keepPts_sameSplits h3
    have tot : ∀ k, splitsOf H3 k = splitsOf H k := fun k => by rw [s3 k, sameSplits_of_recs r2 k, s1 k, hnew k]
    have zz : H3.recs.size = H.recs.size + 1 := by rw [z3, r2, z1, hnewsz]
    have hfresh : splitsOf H H.recs.size = [] := by unfold splitsOf; simp
    have ho2 : (newOutRec H).2 = H.recs.size := rfl
    rw [ho2] at h
    cases tree with
    | true =>
      simp only [if_true] at h
      obtain ⟨a, b, c⟩ := splitOwners_splits h
      refine ⟨o1, rfl, by rw [c, zz], by simp [a, tot], ?_, ?_⟩
      · have e : H.recs.size ≠ o1 := Nat.ne_of_gt (hlt o1 rfl)
        rw [b _ e, tot, hfresh]
      · intro k hk1 _; rw [b k hk1, tot]
    | false =>
      simp only [Bool.false_eq_true, if_false] at h
      have s4 := sameSplits_updRec h (fun _ => rfl)
      refine ⟨o1, rfl, by rw [(updRec_ok h).2.2.1, zz], by simp [s4 o1, tot], by rw [s4, tot, hfresh], ?_⟩
      intro k _ _; rw [s4, tot]

/-- `GetRealOutRec` returns a live record of the table -/
theorem getRealOutRec_live (H : Heap) : ∀ (f : Nat) (x : Option Nat) (r : Nat), getRealOutRec H f x = .ok (some r) →
    ∃ rc, H.recs[r]? = some rc ∧ rc.pts.isSome
  | 0, _, _, h => by simp [getRealOutRec] at h
  | f + 1, none, r, h => by simp [getRealOutRec] at h
  | f + 1, some i, r, h => by
    rw [getRealOutRec] at h
    cases hr : H.orec i with
    | error e => simp [hr] at h
    | ok rc =>
      simp only [hr] at h
      split at h
      · rename_i hp
        simp only [Except.ok.injEq, Option.some.injEq] at h; subst h
        exact ⟨rc, orec_ok.1 hr, hp⟩
      · exact getRealOutRec_live H f rc.owner r h

/-- **the `splits` bookkeeping of the merge branch**: the emptied record `or2` hands its `splits` entries to `or1`
(`MoveSplits`, #618) under `using_polytree_`; otherwise no list changes.  `or2->pts` becomes null, no record is added. -/
theorem mergeBranch_splits {tree : Bool} {H H' : Heap} {or1 or2 : Option Nat} (hne : or1 ≠ or2) (h : mergeBranch tree H or1 or2 = .ok H') :
    ∃ o2, or2 = some o2 ∧ H'.recs.size = H.recs.size ∧ (∃ rc, H'.recs[o2]? = some rc ∧ rc.pts = none) ∧
      (tree = true → ∃ o1, or1 = some o1 ∧ splitsOf H' o1 = splitsOf H o1 ++ splitsOf H o2 ∧ splitsOf H' o2 = [] ∧
        ∀ k, k ≠ o1 → k ≠ o2 → splitsOf H' k = splitsOf H k) ∧
      (tree = false → SameSplits H H') := by
  unfold mergeBranch at h
  cases or2 with
  | none => simp at h
  | some o2 =>
    simp only [bind_ok] at h
    obtain ⟨H1, h1, h⟩ := h
    have s1 := sameSplits_updRec h1 (fun _ => rfl)
    obtain ⟨hi, _, z1, g1⟩ := updRec_ok h1
    have hdead : ∃ rc, H1.recs[o2]? = some rc ∧ rc.pts = none := by
      have : H.recs[o2]? = some H.recs[o2] := by simp [hi]
      rw [g1 o2, if_pos rfl, this]; exact ⟨_, rfl, rfl⟩
    cases tree with
    | true =>
      simp only [if_true] at h
      cases or1 with
      | none => simp at h
      | some o1 =>
        simp only [bind_ok] at h
        obtain ⟨H2, h2, h3⟩ := h
        have hne' : o2 ≠ o1 := fun e => hne (by rw [e])
        have oo := setOwner_onlyOwners h2
        have s2 := oo.sameSplits
        obtain ⟨a, b, c, _, sz, fr⟩ := moveSplits_spec hne' h3
        refine ⟨o2, rfl, by rw [sz, oo.1, z1], ?_, ?_, by simp⟩
        · -- pts of o2 still none: SetOwner and MoveSplits do not write pts
          obtain ⟨rc, hrc, hp⟩ := hdead
          obtain ⟨rc2, hrc2, hp2⟩ := oo.pts hrc
          have := fr o2
          rw [hrc2] at this
          cases h' : H'.recs[o2]? with
          | none => rw [h'] at this; simp at this
          | some rc' =>
            rw [h'] at this
            simp only [Option.map_some, Option.some.injEq, Prod.mk.injEq] at this
            exact ⟨rc', rfl, by rw [this.1, hp2, hp]⟩
        · intro _
          refine ⟨o1, rfl, ?_, b, ?_⟩
          · rw [a, s2 o1, s2 o2, s1 o1, s1 o2]
          · intro k h1' h2'; rw [c k h2' h1', s2 k, s1 k]
    | false =>
      simp only [Bool.false_eq_true, if_false] at h
      obtain ⟨_, _, z2, g2⟩ := updRec_ok h
      refine ⟨o2, rfl, by rw [z2, z1], ?_, by simp, fun _ => s1.trans (sameSplits_updRec h (fun _ => rfl))⟩
      obtain ⟨rc, hrc, hp⟩ := hdead
      rw [g2 o2, if_pos rfl, hrc]; exact ⟨_, rfl, hp⟩

theorem splice_recs {H H' : Heap} {j : HorzJoin} {b1 b2 : Nat} (h : splice H j = .ok (H', b1, b2)) : H'.recs = H.recs := by
  unfold splice at h
  simp only [bind_ok] at h
  obtain ⟨n1, _, n2, _, H1, e1, H2, e2, H3, e3, H4, e4, h⟩ := h
  simp only [pure, Except.pure, Except.ok.injEq, Prod.mk.injEq] at h
  obtain ⟨rfl, _, _⟩ := h
  rw [(updNode_ok e4).2.1, (updNode_ok e3).2.1, (updNode_ok e2).2.1, (updNode_ok e1).2.1]

/-- **`splits` bookkeeping of one iteration of `ProcessHorzJoins`.**  With `or1`, `or2` the real records of the two join ops:
* `or1 == or2` (split): one record `new = |outrec_list_|` is appended; under `using_polytree_` it is pushed onto `or1->splits`
  (and onto no other list), otherwise no list changes; the new record has no `splits`;
* `or1 != or2` (merge): no record is appended, `or2->pts` becomes null; under `using_polytree_` the entries of `or2->splits`
  are appended to `or1->splits` and `or2->splits` is emptied (`MoveSplits`), every other list is unchanged; otherwise no list changes. -/
theorem processJoin_splits {inside : List Pt → List Pt → Bool} {tree : Bool} {H H' : Heap} {j : HorzJoin}
    (h : processJoin inside tree H j = .ok H') :
    ∃ n1 n2 or1 or2, H.ops[j.op1]? = some n1 ∧ H.ops[j.op2]? = some n2 ∧
      realOf H n1.orec = .ok or1 ∧ realOf H n2.orec = .ok or2 ∧
      ((or1 = or2 ∧ ∃ o1, or1 = some o1 ∧ H'.recs.size = H.recs.size + 1 ∧
          splitsOf H' o1 = (if tree then splitsOf H o1 ++ [H.recs.size] else splitsOf H o1) ∧
          splitsOf H' H.recs.size = [] ∧ (∀ k, k ≠ o1 → k ≠ H.recs.size → splitsOf H' k = splitsOf H k)) ∨
       (or1 ≠ or2 ∧ ∃ o2, or2 = some o2 ∧ H'.recs.size = H.recs.size ∧ (∃ rc, H'.recs[o2]? = some rc ∧ rc.pts = none) ∧
          (tree = true → ∃ o1, or1 = some o1 ∧ splitsOf H' o1 = splitsOf H o1 ++ splitsOf H o2 ∧ splitsOf H' o2 = [] ∧
            ∀ k, k ≠ o1 → k ≠ o2 → splitsOf H' k = splitsOf H k) ∧
          (tree = false → SameSplits H H'))) := by
  unfold processJoin at h
  simp only [bind_ok] at h
  obtain ⟨n1, hn1, or1, hr1, n2, hn2, or2, hr2, ⟨Hs, b1, b2⟩, hs, h⟩ := h
  have er := splice_recs hs
  have ess : SameSplits H Hs := sameSplits_of_recs er
  refine ⟨n1, n2, or1, or2, node_ok.1 hn1, node_ok.1 hn2, hr1, hr2, ?_⟩
  simp only at h
  split at h
  · rename_i heq
    left
    have hlt : ∀ o1, or1 = some o1 → o1 < Hs.recs.size := by
      intro o1 e
      subst e
      obtain ⟨rc, hrc, _⟩ := getRealOutRec_live H _ _ _ hr1
      rw [er]
      by_cases hh : o1 < H.recs.size
      · exact hh
      · simp [Array.getElem?_eq_none (Nat.le_of_not_lt hh)] at hrc
    obtain ⟨o1, e1, a, b, c, d⟩ := splitBranch_splits hlt h
    rw [er] at a b c d
    refine ⟨heq, o1, e1, a, ?_, c, ?_⟩
    · rw [b]; cases tree <;> simp [ess o1]
    · intro k h1 h2; rw [d k h1 h2, ess k]
  · rename_i hne
    right
    obtain ⟨o2, e2, a, b, c, d⟩ := mergeBranch_splits hne h
    rw [er] at a
    refine ⟨hne, o2, e2, a, b, ?_, fun ht => ess.trans (d ht)⟩
    intro ht
    obtain ⟨o1, e1, x, y, z⟩ := c ht
    exact ⟨o1, e1, by rw [x, ess o1, ess o2], y, fun k h1 h2 => by rw [z k h1 h2, ess k]⟩

end Clipper.Model.HorzJoins
