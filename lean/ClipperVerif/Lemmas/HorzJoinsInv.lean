/-
Invariants of the join pass put together: a heap whose `OutPt`s fall into rings (`Rings`), all of them rectilinear (`RectHeap`),
stays such under `DuplicateOp` and under every iteration of `ProcessHorzJoins` whose join is flat (`JoinFlat`).
Helper file of `Props/C02Horz.lean`.  Core Lean only.
-/
import ClipperVerif.Lemmas.HorzJoinsRect
namespace Clipper.Model.HorzJoins
open Clipper

theorem Rings.of_sameLinks {H H' : Heap} {rs : List (List Nat)} (s : SameLinks H H') (R : Rings H rs) : Rings H' rs := by
  obtain ⟨a, b, _, d⟩ := s
  exact ⟨by rw [a, b]; exact R.ring, by rw [d]; exact R.perm⟩

/-- every edge `a → a->next` of the heap is horizontal or vertical (or degenerate) -/
def RectEdges (H : Heap) : Prop := ∀ a b, nextOf H a = some b → Aligned (ptOf H) a b

theorem RectEdges.of_sameLinks {H H' : Heap} (s : SameLinks H H') (r : RectEdges H) : RectEdges H' := by
  intro a b hab
  rw [s.1] at hab; rw [s.2.2.1]; exact r a b hab

/-- on a heap of rings, "every edge is rectilinear" says that every ring is a rectilinear closed path -/
theorem rectEdges_rings {H : Heap} {rs : List (List Nat)} (R : Rings H rs) (r : RectEdges H) : ∀ c ∈ rs, RectRing (ptOf H) c := by
  intro c hc
  have hring := R.ring c hc
  cases c with
  | nil => trivial
  | cons a t =>
    have : ∀ (l : List Nat), ChainF (nextOf H) (prevOf H) l → ChainR (Aligned (ptOf H)) l := by
      intro l
      induction l with
      | nil => intro _; trivial
      | cons x r' ih =>
        cases r' with
        | nil => intro _; trivial
        | cons y r'' =>
          intro h
          simp only [chainF_cons2] at h
          exact ⟨r x y h.1.1, ih h.2⟩
    exact this _ hring.2

theorem rings_rectEdges {H : Heap} {rs : List (List Nat)} (R : Rings H rs) (r : ∀ c ∈ rs, RectRing (ptOf H) c) : RectEdges H := by
  intro a b hab
  obtain ⟨n, hn, _⟩ := nextOf_some.1 hab
  obtain ⟨c, hc, hac⟩ := R.exists_ring (lt_of_node hn)
  obtain ⟨pre, post, rfl, hrot⟩ := (R.ring c hc).rotate_to hac
  have hrect : RectRing (ptOf H) (a :: (post ++ pre)) := by
    have := rectRing_rot pre (a :: post) (r _ hc); simpa using this
  have hrot : IsRingF (nextOf H) (prevOf H) (a :: (post ++ pre)) := by simpa using hrot
  obtain ⟨s, hs⟩ : ∃ s, ((post ++ pre) ++ [a]).head? = some s := by
    cases h : (post ++ pre) ++ [a] with
    | nil => simp at h
    | cons x t => exact ⟨x, rfl⟩
  have h1 : LinkF (nextOf H) (prevOf H) a s := by
    have := hrot.2; rw [List.cons_append, chainF_cons_head hs] at this; exact this.1
  have h2 : Aligned (ptOf H) a s := by
    have : ChainR (Aligned (ptOf H)) (a :: ((post ++ pre) ++ [a])) := hrect
    rw [chainR_cons_head hs] at this; exact this.1
  rw [h1.1] at hab; cases hab; exact h2

/-! ## `DuplicateOp` keeps the invariants -/

/-- **`DuplicateOp` on any valid `OutPt` of a heap of rings**: it succeeds; the result is again a heap of rings (the ring of `op`
has one more node, next to `op`, all others are unchanged); the new node is the next free index and carries `op`'s point and
`outrec`; if every edge was rectilinear, every edge still is. -/
theorem duplicateOp_keeps {H : Heap} {rs : List (List Nat)} (R : Rings H rs) {op : Nat} (hop : op < H.ops.size) (after : Bool) :
    ∃ H' rs', duplicateOp H op after = .ok (H', H.ops.size) ∧ Rings H' rs' ∧ rs'.length = rs.length ∧
      ptOf H' = (fun j => if j = H.ops.size then ptOf H op else ptOf H j) ∧
      orecOf H' = (fun j => if j = H.ops.size then orecOf H op else orecOf H j) ∧
      H'.recs = H.recs ∧ H'.ops.size = H.ops.size + 1 ∧ (RectEdges H → RectEdges H') := by
  obtain ⟨c, hc, hopc⟩ := R.exists_ring hop
  obtain ⟨A, B, rfl⟩ := List.append_of_mem hc
  obtain ⟨pre, post, rfl⟩ := List.append_of_mem hopc
  have hvalid : ∀ {i : Nat} {q : Pt}, ptOf H i = some q → i ≠ H.ops.size := by
    intro i q h
    obtain ⟨n, hn, _⟩ := ptOf_some.1 h
    exact Nat.ne_of_lt (lt_of_node hn)
  cases after with
  | true =>
    obtain ⟨H', n, hn, hd, R', ept, eo, er, es, enx, hslt⟩ := duplicateOp_after_rings R
    have hpt : ptOf H op = some n.pt := ptOf_some.2 ⟨n, hn, rfl⟩
    have hor : orecOf H op = some n.orec := orecOf_some.2 ⟨n, hn, rfl⟩
    have hnx : nextOf H op = some n.next := nextOf_some.2 ⟨n, hn, rfl⟩
    refine ⟨H', _, hd, R', by simp, by rw [ept, hpt], ?_, er, es, ?_⟩
    · rw [eo]; funext j; simp only [upd, hor]
    · intro hr a b hab
      rw [enx] at hab
      have hops : op ≠ H.ops.size := Nat.ne_of_lt hop
      by_cases ha : a = op
      · subst ha
        simp only [upd_same, Option.some.injEq] at hab; subst hab
        exact ⟨n.pt, n.pt, by rw [ept]; simp [hops, hpt], by rw [ept]; simp, Or.inl rfl⟩
      · rw [upd_ne _ _ ha] at hab
        by_cases ha2 : a = H.ops.size
        · subst ha2
          simp only [upd_same, Option.some.injEq] at hab; subst hab
          obtain ⟨p, q, h1, h2, h3⟩ := hr op n.next hnx
          rw [hpt] at h1; cases h1
          exact ⟨n.pt, q, by rw [ept]; simp, by rw [ept]; simp [hvalid h2, h2], h3⟩
        · rw [upd_ne _ _ ha2] at hab
          obtain ⟨p, q, h1, h2, h3⟩ := hr a b hab
          exact ⟨p, q, by rw [ept]; simp [hvalid h1, h1], by rw [ept]; simp [hvalid h2, h2], h3⟩
  | false =>
    obtain ⟨H', n, hn, hd, R', ept, eo, er, es, enx, hplt, hpnx⟩ := duplicateOp_before_rings R
    have hpt : ptOf H op = some n.pt := ptOf_some.2 ⟨n, hn, rfl⟩
    have hor : orecOf H op = some n.orec := orecOf_some.2 ⟨n, hn, rfl⟩
    refine ⟨H', _, hd, R', by simp, by rw [ept, hpt], ?_, er, es, ?_⟩
    · rw [eo]; funext j; simp only [upd, hor]
    · intro hr a b hab
      rw [enx] at hab
      have hops : op ≠ H.ops.size := Nat.ne_of_lt hop
      by_cases ha : a = n.prev
      · subst ha
        simp only [upd_same, Option.some.injEq] at hab; subst hab
        obtain ⟨p, q, h1, h2, h3⟩ := hr n.prev op hpnx
        rw [hpt] at h2; cases h2
        exact ⟨p, n.pt, by rw [ept]; simp [hvalid h1, h1], by rw [ept]; simp, h3⟩
      · rw [upd_ne _ _ ha] at hab
        by_cases ha2 : a = H.ops.size
        · subst ha2
          simp only [upd_same, Option.some.injEq] at hab; subst hab
          exact ⟨n.pt, n.pt, by rw [ept]; simp, by rw [ept]; simp [hops, hpt], Or.inl rfl⟩
        · rw [upd_ne _ _ ha2] at hab
          obtain ⟨p, q, h1, h2, h3⟩ := hr a b hab
          exact ⟨p, q, by rw [ept]; simp [hvalid h1, h1], by rw [ept]; simp [hvalid h2, h2], h3⟩

/-! ## one join -/

/-- the join is *flat*: `op1`, `op2`, `op1->next` and `op2->prev` all carry points on one horizontal line -/
def JoinFlat (H : Heap) (j : HorzJoin) : Prop :=
  ∃ a b p1 p2 pa pb, nextOf H j.op1 = some a ∧ prevOf H j.op2 = some b ∧
    ptOf H j.op1 = some p1 ∧ ptOf H j.op2 = some p2 ∧ ptOf H a = some pa ∧ ptOf H b = some pb ∧
    p2.y = p1.y ∧ pa.y = p1.y ∧ pb.y = p1.y

/-- what a successful `splice` did -/
theorem splice_ok_eqs {H H' : Heap} {j : HorzJoin} {b1 b2 : Nat} (h : splice H j = .ok (H', b1, b2)) :
    nextOf H j.op1 = some b1 ∧ prevOf H j.op2 = some b2 ∧
    nextOf H' = upd (upd (nextOf H) j.op1 j.op2) b2 b1 ∧ prevOf H' = upd (upd (prevOf H) j.op2 j.op1) b1 b2 ∧
    orecOf H' = orecOf H ∧ ptOf H' = ptOf H ∧ H'.recs = H.recs ∧ H'.ops.size = H.ops.size := by
  unfold splice at h
  simp only [bind_ok] at h
  obtain ⟨n1, h1, n2, h2, H1, e1, H2, e2, H3, e3, H4, e4, h⟩ := h
  simp only [pure, Except.pure, Except.ok.injEq, Prod.mk.injEq] at h
  obtain ⟨rfl, rfl, rfl⟩ := h
  obtain ⟨a1, a2, a3, a4, a5, a6⟩ := upd_next_eqs e1
  obtain ⟨b1, b2, b3, b4, b5, b6⟩ := upd_prev_eqs e2
  obtain ⟨c1, c2, c3, c4, c5, c6⟩ := upd_prev_eqs e3
  obtain ⟨d1, d2, d3, d4, d5, d6⟩ := upd_next_eqs e4
  refine ⟨nextOf_some.2 ⟨n1, node_ok.1 h1, rfl⟩, prevOf_some.2 ⟨n2, node_ok.1 h2, rfl⟩, ?_, ?_, ?_, ?_, ?_, ?_⟩
  · rw [d1, c1, b1, a1]
  · rw [d2, c2, b2, a2]
  · rw [d3, c3, b3, a3]
  · rw [d4, c4, b4, a4]
  · rw [d5, c5, b5, a5]
  · rw [d6, c6, b6, a6]

/-- **a flat join creates no diagonal edge**: if every edge of the heap is horizontal or vertical and `op1`, `op2`, `op1->next`,
`op2->prev` lie on one horizontal line, then after the iteration of `ProcessHorzJoins` (whichever branch, whatever
`Path1InsidePath2` answers) every edge still is. -/
theorem processJoin_rect {inside : List Pt → List Pt → Bool} {tree : Bool} {H H' : Heap} {j : HorzJoin}
    (r : RectEdges H) (f : JoinFlat H j) (h : processJoin inside tree H j = .ok H') : RectEdges H' := by
  obtain ⟨Hs, b1, b2, hs, sl⟩ := processJoin_frame h
  apply RectEdges.of_sameLinks sl
  obtain ⟨ha, hb, en, _, _, ept, _, _⟩ := splice_ok_eqs hs
  obtain ⟨a', b', p1, p2, pa, pb, h1, h2, h3, h4, h5, h6, e1, e2, e3⟩ := f
  rw [ha] at h1; cases h1
  rw [hb] at h2; cases h2
  intro x y hxy
  rw [ept]; rw [en] at hxy
  by_cases hx : x = b2
  · subst hx
    simp only [upd_same, Option.some.injEq] at hxy; subst hxy
    exact ⟨pb, pa, h6, h5, Or.inr (by rw [e3, e2])⟩
  · rw [upd_ne _ _ hx] at hxy
    by_cases hx1 : x = j.op1
    · subst hx1
      simp only [upd_same, Option.some.injEq] at hxy; subst hxy
      exact ⟨p1, p2, h3, h4, Or.inr e1.symm⟩
    · rw [upd_ne _ _ hx1] at hxy
      exact r x y hxy

/-- two listings of the rings of one heap for a pair of nodes: on one ring, or on two -/
theorem Rings.focus2 {H : Heap} {rs : List (List Nat)} (R : Rings H rs) {x y : Nat} (hx : x < H.ops.size) (hy : y < H.ops.size)
    (hxy : x ≠ y) :
    (∃ X Y rest, Rings H ((x :: X ++ y :: Y) :: rest) ∧ rs.length = rest.length + 1) ∨
    (∃ X Y rest, Rings H ((x :: X) :: (y :: Y) :: rest) ∧ rs.length = rest.length + 2) := by
  obtain ⟨t, rest, R1, _, hl⟩ := R.focus hx
  by_cases hyt : y ∈ t
  · left
    obtain ⟨X, Y, rfl⟩ := List.append_of_mem hyt
    exact ⟨X, Y, rest, by simpa using R1, hl⟩
  · right
    have hyf : y ∈ ((x :: t) :: rest).flatten := R1.perm.mem_iff.2 (List.mem_range.2 hy)
    have hyr : y ∈ rest.flatten := by
      simp only [List.flatten_cons, List.mem_append, List.mem_cons] at hyf
      rcases hyf with (h | h) | h
      · exact absurd h.symm hxy
      · exact absurd h hyt
      · exact h
    obtain ⟨c, hc, hyc⟩ := List.mem_flatten.1 hyr
    obtain ⟨A, B, rfl⟩ := List.append_of_mem hc
    obtain ⟨pre, post, rfl⟩ := List.append_of_mem hyc
    have p1 : ((x :: t) :: (A ++ (pre ++ y :: post) :: B)).Perm ((pre ++ y :: post) :: (x :: t) :: (A ++ B)) := by
      have : (A ++ (pre ++ y :: post) :: B).Perm ((pre ++ y :: post) :: (A ++ B)) := List.perm_middle
      exact (List.Perm.cons _ this).trans (List.Perm.swap _ _ _)
    have R2 := (R1.perm' p1).rot_head
    have p2 : ((y :: post ++ pre) :: (x :: t) :: (A ++ B)).Perm ((x :: t) :: (y :: (post ++ pre)) :: (A ++ B)) := by
      have : (y :: post ++ pre) = y :: (post ++ pre) := by simp
      rw [this]; exact List.Perm.swap _ _ _
    exact ⟨t, post ++ pre, A ++ B, R2.perm' p2, by simp at hl ⊢; omega⟩

/-- the surgery when `op1->next == op2` already: nothing changes -/
theorem splice_degenerate {H : Heap} {j : HorzJoin} {Y : List Nat} {rest : List (List Nat)}
    (R : Rings H ((j.op1 :: j.op2 :: Y) :: rest)) :
    ∃ H', splice H j = .ok (H', j.op2, j.op1) ∧ SameLinks H H' ∧ H'.recs = H.recs ∧ orecOf H' = orecOf H := by
  have hc : (j.op1 :: j.op2 :: Y) ∈ (j.op1 :: j.op2 :: Y) :: rest := by simp
  have hring := R.ring _ hc
  have hl := hring.next_head
  obtain ⟨n1, hn1⟩ := node_of_lt (R.mem_lt hc (by simp : j.op1 ∈ j.op1 :: j.op2 :: Y))
  obtain ⟨n2, hn2⟩ := node_of_lt (R.mem_lt hc (by simp : j.op2 ∈ j.op1 :: j.op2 :: Y))
  have e1 : n1.next = j.op2 := by
    obtain ⟨n', hn', e⟩ := nextOf_some.1 hl.1
    rw [hn1] at hn'; cases hn'; exact e
  have e2 : n2.prev = j.op1 := by
    obtain ⟨n', hn', e⟩ := prevOf_some.1 hl.2
    rw [hn2] at hn'; cases hn'; exact e
  obtain ⟨H', hs, en, ep, eo, ept, er, es⟩ := splice_eqs hn1 hn2 (by rw [e1]; exact lt_of_node hn2) (by rw [e2]; exact lt_of_node hn1)
  rw [e1, e2] at hs en ep
  refine ⟨H', hs, ⟨?_, ?_, ept, es⟩, er, eo⟩
  · rw [en]; funext k; simp only [upd]
    by_cases hk : k = j.op1
    · simp [hk, hl.1]
    · simp [hk]
  · rw [ep]; funext k; simp only [upd]
    by_cases hk : k = j.op2
    · simp [hk, hl.2]
    · simp [hk]

/-- **split**: both ops on the ring `op1 :: X ++ op2 :: Y`, `X ≠ []`: the ring falls into `op1 :: op2 :: Y` and `X` -/
theorem processJoin_split_rings {inside : List Pt → List Pt → Bool} {tree : Bool} {H H' : Heap} {j : HorzJoin}
    {X Y : List Nat} {rest : List (List Nat)} (R : Rings H ((j.op1 :: X ++ j.op2 :: Y) :: rest)) (hX : X ≠ [])
    (h : processJoin inside tree H j = .ok H') :
    Rings H' ((j.op1 :: j.op2 :: Y) :: X :: rest) ∧ ptOf H' = ptOf H ∧ H'.ops.size = H.ops.size := by
  obtain ⟨Hs, b1, b2, hs, sl⟩ := processJoin_frame h
  obtain ⟨x0, hx0⟩ : ∃ x0, X.head? = some x0 := by
    cases X with
    | nil => exact absurd rfl hX
    | cons a t => exact ⟨a, rfl⟩
  obtain ⟨xl, hxl⟩ : ∃ xl, X.getLast? = some xl := by
    rw [List.getLast?_eq_some_getLast hX]; exact ⟨_, rfl⟩
  obtain ⟨Hs', hs', R', _, ept, _, es⟩ := splice_rings_same R hx0 hxl
  rw [hs] at hs'; cases hs'
  exact ⟨R'.of_sameLinks sl, by rw [sl.2.2.1, ept], by rw [sl.2.2.2, es]⟩

/-- **merge**: the ops on the two rings `op1 :: X` and `op2 :: Y`: they become the one ring `op1 :: op2 :: Y ++ X` -/
theorem processJoin_merge_rings {inside : List Pt → List Pt → Bool} {tree : Bool} {H H' : Heap} {j : HorzJoin}
    {X Y : List Nat} {rest : List (List Nat)} (R : Rings H ((j.op1 :: X) :: (j.op2 :: Y) :: rest))
    (h : processJoin inside tree H j = .ok H') :
    Rings H' ((j.op1 :: j.op2 :: (Y ++ X)) :: rest) ∧ ptOf H' = ptOf H ∧ H'.ops.size = H.ops.size := by
  obtain ⟨Hs, b1, b2, hs, sl⟩ := processJoin_frame h
  obtain ⟨Hs', c1, c2, hs', _, _, R', _, ept, _, es⟩ := splice_rings_diff R
  rw [hs] at hs'; cases hs'
  exact ⟨R'.of_sameLinks sl, by rw [sl.2.2.1, ept], by rw [sl.2.2.2, es]⟩

/-- when `op1->next == op2` already, the links do not change at all -/
theorem processJoin_degenerate_rings {inside : List Pt → List Pt → Bool} {tree : Bool} {H H' : Heap} {j : HorzJoin}
    {Y : List Nat} {rest : List (List Nat)} (R : Rings H ((j.op1 :: j.op2 :: Y) :: rest))
    (h : processJoin inside tree H j = .ok H') :
    Rings H' ((j.op1 :: j.op2 :: Y) :: rest) ∧ ptOf H' = ptOf H ∧ H'.ops.size = H.ops.size := by
  obtain ⟨Hs, b1, b2, hs, sl⟩ := processJoin_frame h
  obtain ⟨Hs', hs', sl', _, _⟩ := splice_degenerate R
  rw [hs] at hs'; cases hs'
  exact ⟨(R.of_sameLinks sl').of_sameLinks sl, by rw [sl.2.2.1, sl'.2.2.1], by rw [sl.2.2.2, sl'.2.2.2]⟩

/-- **one iteration of `ProcessHorzJoins` keeps a heap of rings a heap of rings**, with one ring more (split), one less (merge)
or the same rings (`op1->next == op2`); no point moves. -/
theorem processJoin_keeps {inside : List Pt → List Pt → Bool} {tree : Bool} {H H' : Heap} {j : HorzJoin} {rs : List (List Nat)}
    (R : Rings H rs) (h1 : j.op1 < H.ops.size) (h2 : j.op2 < H.ops.size) (hne : j.op1 ≠ j.op2)
    (h : processJoin inside tree H j = .ok H') :
    ∃ rs', Rings H' rs' ∧ ptOf H' = ptOf H ∧ H'.ops.size = H.ops.size ∧
      (rs'.length = rs.length + 1 ∨ rs'.length = rs.length ∨ rs'.length + 1 = rs.length) := by
  rcases R.focus2 h1 h2 hne with ⟨X, Y, rest, R1, hl⟩ | ⟨X, Y, rest, R1, hl⟩
  · by_cases hX : X = []
    · subst hX
      obtain ⟨a, b, c⟩ := processJoin_degenerate_rings (by simpa using R1) h
      exact ⟨_, a, b, c, Or.inr (Or.inl (by simp; omega))⟩
    · obtain ⟨a, b, c⟩ := processJoin_split_rings R1 hX h
      exact ⟨_, a, b, c, Or.inl (by simp; omega)⟩
  · obtain ⟨a, b, c⟩ := processJoin_merge_rings R1 h
    exact ⟨_, a, b, c, Or.inr (Or.inr (by simp; omega))⟩

/-! ## the whole list of joins -/

/-- the flatness of another join `m` survives the processing of join `k` -/
theorem joinFlat_after {inside : List Pt → List Pt → Bool} {tree : Bool} {H H' : Heap} {k m : HorzJoin}
    (fk : JoinFlat H k) (fm : JoinFlat H m) (d1 : m.op1 ≠ k.op1) (d2 : m.op2 ≠ k.op2)
    (h : processJoin inside tree H k = .ok H') : JoinFlat H' m := by
  obtain ⟨Hs, b1, b2, hs, sl⟩ := processJoin_frame h
  obtain ⟨ha, hb, en, ep, _, ept, _, _⟩ := splice_ok_eqs hs
  obtain ⟨a', b', p1, p2, pa, pb, h1, h2, h3, h4, h5, h6, e1, e2, e3⟩ := fk
  rw [ha] at h1; cases h1
  rw [hb] at h2; cases h2
  obtain ⟨am, bm, q1, q2, qa, qb, g1, g2, g3, g4, g5, g6, f1, f2, f3⟩ := fm
  unfold JoinFlat
  rw [sl.1, sl.2.1, sl.2.2.1, en, ep, ept]
  -- the new op1->next of m
  have hA : ∃ a qa', upd (upd (nextOf H) k.op1 k.op2) b2 b1 m.op1 = some a ∧ ptOf H a = some qa' ∧ qa'.y = q1.y := by
    by_cases hx : m.op1 = b2
    · rw [hx]; simp only [upd_same]
      refine ⟨b1, pa, rfl, h5, ?_⟩
      rw [hx, h6] at g3; cases g3
      rw [e2, e3]
    · rw [upd_ne _ _ hx, upd_ne _ _ d1]
      exact ⟨am, qa, g1, g5, f2⟩
  have hB : ∃ b qb', upd (upd (prevOf H) k.op2 k.op1) b1 b2 m.op2 = some b ∧ ptOf H b = some qb' ∧ qb'.y = q1.y := by
    by_cases hx : m.op2 = b1
    · rw [hx]; simp only [upd_same]
      refine ⟨b2, pb, rfl, h6, ?_⟩
      rw [hx, h5] at g4; cases g4
      rw [e3, ← e2, f1]
    · rw [upd_ne _ _ hx, upd_ne _ _ d2]
      exact ⟨bm, qb, g2, g6, f3⟩
  obtain ⟨a, qa', ha1, ha2, ha3⟩ := hA
  obtain ⟨b, qb', hb1, hb2, hb3⟩ := hB
  exact ⟨a, b, q1, q2, qa', qb', ha1, hb1, g3, g4, ha2, hb2, f1, ha3, hb3⟩

/-- the joins of the list are distinct `OutPt`s, valid, flat -/
def JoinsOK (H : Heap) (js : List HorzJoin) : Prop :=
  (js.map (·.op1)).Nodup ∧ (js.map (·.op2)).Nodup ∧
  ∀ j ∈ js, j.op1 < H.ops.size ∧ j.op2 < H.ops.size ∧ j.op1 ≠ j.op2

/-- **`ProcessHorzJoins` on a heap of rings**: if it returns, the result is a heap of rings with the same points at the same
`OutPt`s; if moreover every edge was horizontal or vertical and every join is flat, every edge still is: flat joins never create a
diagonal edge. -/
theorem processHorzJoins_keeps {inside : List Pt → List Pt → Bool} {tree : Bool} :
    ∀ (js : List HorzJoin) (H H' : Heap) (rs : List (List Nat)), Rings H rs → JoinsOK H js →
      processHorzJoins inside tree H js = .ok H' →
      ∃ rs', Rings H' rs' ∧ ptOf H' = ptOf H ∧ H'.ops.size = H.ops.size ∧
        (RectEdges H → (∀ j ∈ js, JoinFlat H j) → RectEdges H')
  | [], H, H', rs, R, _, h => by
    simp only [processHorzJoins, Except.ok.injEq] at h; subst h
    exact ⟨rs, R, rfl, rfl, fun r _ => r⟩
  | j :: js, H, H', rs, R, ok, h => by
    unfold processHorzJoins at h
    cases h1 : processJoin inside tree H j with
    | error e => simp [h1] at h
    | ok H1 =>
      simp only [h1] at h
      obtain ⟨hv1, hv2, hne⟩ := ok.2.2 j (by simp)
      obtain ⟨rs1, R1, ept1, es1, _⟩ := processJoin_keeps R hv1 hv2 hne h1
      have ok1 : JoinsOK H1 js := by
        refine ⟨?_, ?_, ?_⟩
        · have := ok.1; simp only [List.map_cons, List.nodup_cons] at this; exact this.2
        · have := ok.2.1; simp only [List.map_cons, List.nodup_cons] at this; exact this.2
        · intro m hm; rw [es1]; exact ok.2.2 m (List.mem_cons_of_mem _ hm)
      obtain ⟨rs', R', ept', es', hrect⟩ := processHorzJoins_keeps js H1 H' rs1 R1 ok1 h
      refine ⟨rs', R', by rw [ept', ept1], by rw [es', es1], ?_⟩
      intro r fl
      apply hrect (processJoin_rect r (fl j (by simp)) h1)
      intro m hm
      have d1 : m.op1 ≠ j.op1 := by
        have := ok.1; simp only [List.map_cons, List.nodup_cons, List.mem_map] at this
        intro e; exact this.1 ⟨m, hm, e⟩
      have d2 : m.op2 ≠ j.op2 := by
        have := ok.2.1; simp only [List.map_cons, List.nodup_cons, List.mem_map] at this
        intro e; exact this.1 ⟨m, hm, e⟩
      exact joinFlat_after (fl j (by simp)) (fl m (List.mem_cons_of_mem _ hm)) d1 d2 h1

end Clipper.Model.HorzJoins
