/-
Helper lemmas for `Props/C01Crown.lean`, part 2: the ray sum through `AddLocalMaxPoly` and `AddOutPt … SwapOutrecs`.
`AddLocalMaxPoly(e1, e2, pt)` emits on `e1` only; the end point of `e2`'s ring end becomes the neighbour of `pt` by closing the ring or by
`JoinOutrecPaths` — in all three branches the ray sum grows by the weight of BOTH pairs (old end point, `pt`), each read in the direction of
its ring end.  Core Lean only.
-/
import ClipperVerif.Lemmas.C01CrownSum
namespace Clipper.Lemmas.C01Crown
open Clipper Clipper.Model Clipper.Lemmas.C01Output

theorem bnot_ne (b : Bool) : (!b) ≠ b := by cases b <;> simp

/-- **`AddLocalMaxPoly(e1, e2, pt)`**, `e1` holding the ring end `ra` (end point `ea`), `e2` the ring end `rb` (end point `eb`) -/
theorem phi_localMaxOut {c : Pt → Pt → Int} (hw : Wt c) (kind : SegKind) (ra rb : Rec) (pt : Pt) (o : Out) (ea eb : Pt)
    (hA : LiveAt o.rings ra.id) (hB : LiveAt o.rings rb.id) (hf : ra.front ≠ rb.front)
    (hea : endOf o ra = some ea) (heb : endOf o rb = some eb) :
    phi c (localMaxOut kind ra rb pt o) = phi c o + dcr c ra.front ea pt + dcr c rb.front eb pt := by
  obtain ⟨L1, L2, L3⟩ := localMax_pre kind ra rb pt o hA
  have hphi1 : phi c (logSeg kind rb.id rb.front ra.id ra.front (addOutPt ra.id ra.front pt o)) = phi c o + dcr c ra.front ea pt := by
    rw [phi_logSeg]; exact phi_addOutPt hw ra.id ra.front pt o ea hA hea
  have hB1 := L1 rb.id rb.front (Or.inr (Ne.symm hf)) hB
  have hA1 := L2 _ hA
  have hB1l := L2 _ hB
  obtain ⟨xa, hxa⟩ := endAt_some_of_live hA1 (!ra.front)
  obtain ⟨xb, hxb⟩ := endAt_some_of_live hB1l (!rb.front)
  simp only [endOf] at hea heb
  rw [heb] at hB1
  unfold localMaxOut
  simp only
  generalize logSeg kind rb.id rb.front ra.id ra.front (addOutPt ra.id ra.front pt o) = o1 at *
  obtain ⟨ida, fa⟩ := ra
  obtain ⟨idb, fb⟩ := rb
  simp only at *
  by_cases e : ida = idb
  · subst e
    simp only [if_true]
    cases fa <;> cases fb
    · exact absurd rfl hf
    · rw [phi_finish c ida false o1 eb pt hA1 hB1 L3, hphi1]; simp [dcr]
    · rw [phi_finish c ida true o1 pt eb hA1 L3 hB1, hphi1]; simp [dcr]
    · exact absurd rfl hf
  · simp only [e, if_false]
    by_cases lt : ida < idb
    · simp only [lt, if_true]
      cases fa <;> cases fb
      · exact absurd rfl hf
      · simp only [Bool.not_false, Bool.not_true] at hxa hxb
        rw [phi_joinPaths c ida idb false o1 xa pt eb xb e hA1 hB1l hxa L3 hB1 hxb, hphi1]; simp [dcr]
      · simp only [Bool.not_false, Bool.not_true] at hxa hxb
        rw [phi_joinPaths c ida idb true o1 pt xa xb eb e hA1 hB1l L3 hxa hxb hB1, hphi1]; simp [dcr]
      · exact absurd rfl hf
    · simp only [lt, if_false]
      have e' : idb ≠ ida := fun h => e h.symm
      cases fa <;> cases fb
      · exact absurd rfl hf
      · simp only [Bool.not_false, Bool.not_true] at hxa hxb
        rw [phi_joinPaths c idb ida true o1 eb xb xa pt e' hB1l hA1 hB1 hxb hxa L3, hphi1]; simp [dcr]
      · simp only [Bool.not_false, Bool.not_true] at hxa hxb
        rw [phi_joinPaths c idb ida false o1 xb eb pt xa e' hB1l hA1 hxb hB1 L3 hxa, hphi1]; simp [dcr]
      · exact absurd rfl hf

/-! ## end information of an edge -/

/-- `(IsFront, end point)` of the ring end the edge holds -/
def info (o : Out) (x : Model.SEdge) : Option (Bool × Pt) := x.orec.bind (fun k => (endOf o k).map (fun e => (k.front, e)))

/-- what an emission of `pt` on the ring end `r` adds to the ray sum -/
def emitR (c : Pt → Pt → Int) (o : Out) (r : Option Rec) (pt : Pt) : Int :=
  match r with
  | some k => (match endOf o k with | some e => dcr c k.front e pt | none => 0)
  | none => 0

/-- what an emission of `pt` on the edge `x` adds to the ray sum -/
def emit (c : Pt → Pt → Int) (o : Out) (x : Model.SEdge) (pt : Pt) : Int := emitR c o x.orec pt

theorem info_none {o : Out} {x : Model.SEdge} (h : x.orec = none) : info o x = none := by simp [info, h]

theorem info_some {o : Out} {x : Model.SEdge} {k : Rec} {e : Pt} (h : x.orec = some k) (he : endOf o k = some e) :
    info o x = some (k.front, e) := by simp [info, h, he]

theorem info_orec {o : Out} {x y : Model.SEdge} (h : y.orec = x.orec) : info o y = info o x := by simp [info, h]

theorem emit_none {c : Pt → Pt → Int} {o : Out} {x : Model.SEdge} {pt : Pt} (h : x.orec = none) : emit c o x pt = 0 := by
  simp [emit, emitR, h]

theorem emit_some {c : Pt → Pt → Int} {o : Out} {x : Model.SEdge} {pt : Pt} {k : Rec} {e : Pt} (h : x.orec = some k)
    (he : endOf o k = some e) : emit c o x pt = dcr c k.front e pt := by
  simp [emit, emitR, h, he]

theorem emit_of_info {c : Pt → Pt → Int} {o : Out} {x : Model.SEdge} {pt : Pt} {f : Bool} {e : Pt} (h : info o x = some (f, e)) :
    emit c o x pt = dcr c f e pt := by
  unfold info at h
  cases hx : x.orec with
  | none => simp [hx] at h
  | some k =>
    simp only [hx, Option.bind_some] at h
    cases he : endOf o k with
    | none => simp [he] at h
    | some e' =>
      simp only [he, Option.map_some, Option.some.injEq, Prod.mk.injEq] at h
      rw [emit_some hx he, h.1, h.2]

theorem emit_of_info_none {c : Pt → Pt → Int} {o : Out} {x : Model.SEdge} {pt : Pt} (h : info o x = none) : emit c o x pt = 0 := by
  unfold info at h
  cases hx : x.orec with
  | none => exact emit_none hx
  | some k =>
    simp only [hx, Option.bind_some] at h
    cases he : endOf o k with
    | none => simp [emit, emitR, hx, he]
    | some e' => simp [he] at h

/-- `addOn` on a live ring end -/
theorem phi_addOn {c : Pt → Pt → Int} (hw : Wt c) (r : Option Rec) (pt : Pt) (o : Out) (hl : ∀ k, r = some k → LiveAt o.rings k.id) :
    phi c (addOn r pt o) = phi c o + emitR c o r pt := by
  cases r with
  | none => simp [addOn, emitR]
  | some k =>
    obtain ⟨e, he⟩ := endAt_some_of_live (hl k rfl) k.front
    have he' : endOf o k = some e := he
    simp only [addOn, emitR, he']
    exact phi_addOutPt hw k.id k.front pt o e (hl k rfl) he

theorem phi_handOn (c : Pt → Pt → Int) (r : Option Rec) (o : Out) : phi c (handOn r o) = phi c o := by
  cases r with
  | none => rfl
  | some k => exact phi_handOver c k.id k.front o

/-- **`AddOutPt(e1) ; AddOutPt(e2) ; SwapOutrecs`** -/
theorem phi_swapOut {c : Pt → Pt → Int} (hw : Wt c) (a b : Model.SEdge) (pt : Pt) (o : Out) (hne : ∀ k, a.orec = some k → b.orec ≠ some k)
    (h1 : ∀ k, a.orec = some k → LiveAt o.rings k.id) (h2 : ∀ k, b.orec = some k → LiveAt o.rings k.id) :
    phi c (swapOut a.orec b.orec pt o) = phi c o + emit c o a pt + emit c o b pt := by
  unfold swapOut
  rw [phi_handOn, phi_handOn, phi_addOn hw b.orec pt _ (fun k hk => liveAt_addOn _ _ _ _ (h2 k hk)), phi_addOn hw a.orec pt o h1]
  have eb : emitR c (addOn a.orec pt o) b.orec pt = emitR c o b.orec pt := by
    cases hb : b.orec with
    | none => rfl
    | some k =>
      simp only [emitR]
      rw [endOf_addOn_other a.orec pt o k (fun h => hne k h hb) (h2 k hb)]
  rw [eb]; rfl

end Clipper.Lemmas.C01Crown
