/-
Uniqueness of the stable sorted permutation, for core's `List.mergeSort`
(which is how the models render `std::stable_sort`).  Core Lean only.
-/
namespace Clipper.Lemmas.StableSort
open List

variable {α : Type} {le : α → α → Bool}

/-- the elements of `l` equivalent to `c` under the preorder `le`, in their order of appearance -/
def cls (le : α → α → Bool) (c : α) (l : List α) : List α := l.filter (fun x => le c x && le x c)

theorem cls_append (c : α) (l₁ l₂ : List α) : cls le c (l₁ ++ l₂) = cls le c l₁ ++ cls le c l₂ := by
  simp [cls]

theorem cls_pairwise (trans : ∀ a b c, le a b → le b c → le a c) (c : α) (l : List α) :
    (cls le c l).Pairwise (fun a b => le a b) := by
  induction l with
  | nil => simp [cls]
  | cons a l ih =>
    unfold cls at ih ⊢
    rw [List.filter_cons]
    split
    · rename_i ha
      rw [List.pairwise_cons]
      refine ⟨?_, ih⟩
      intro b hb
      simp only [List.mem_filter, Bool.and_eq_true] at hb ha
      exact trans a c b ha.2 hb.2.1
    · exact ih

/-- Stability: sorting does not reorder equivalent elements. -/
theorem cls_mergeSort (trans : ∀ a b c, le a b → le b c → le a c) (total : ∀ a b, le a b || le b a)
    (c : α) (l : List α) : cls le c (mergeSort l le) = cls le c l := by
  have hsub : cls le c l <+ mergeSort l le :=
    sublist_mergeSort trans total (cls_pairwise trans c l) (by unfold cls; exact List.filter_sublist)
  have hsub2 : cls le c l <+ cls le c (mergeSort l le) := by
    have := hsub.filter (fun x => le c x && le x c)
    unfold cls at this ⊢
    rwa [List.filter_filter, show (fun x => ((le c x && le x c) && (le c x && le x c))) = (fun x => le c x && le x c) from by funext x; simp] at this
  have hlen : (cls le c (mergeSort l le)).length = (cls le c l).length := by
    unfold cls
    exact ((mergeSort_perm l le).filter _).length_eq
  exact (hsub2.eq_of_length hlen.symm).symm

/-- Two sorted lists whose equivalence classes agree (as lists) are equal. -/
theorem eq_of_sorted_of_cls_eq (trans : ∀ a b c, le a b → le b c → le a c) (total : ∀ a b, le a b || le b a) :
    ∀ (A B : List α), A.Pairwise (fun a b => le a b) → B.Pairwise (fun a b => le a b) →
      (∀ c, cls le c A = cls le c B) → A = B
  | [], B, _, _, h => by
    cases B with
    | nil => rfl
    | cons b B' =>
      have hb := h b
      have hbb : le b b = true := by have := total b b; simpa using this
      simp [cls, hbb] at hb
  | a :: A', B, hA, hB, h => by
    have haa : le a a = true := by have := total a a; simpa using this
    cases B with
    | nil =>
      have ha := h a
      simp [cls, haa] at ha
    | cons b B' =>
      have hbb : le b b = true := by have := total b b; simpa using this
      -- b ∈ A and a ∈ B
      have hbA : b ∈ a :: A' := by
        have : b ∈ cls le b (a :: A') := by rw [h b]; simp [cls, hbb]
        unfold cls at this
        exact (List.mem_filter.mp this).1
      have haB : a ∈ b :: B' := by
        have : a ∈ cls le a (b :: B') := by rw [← h a]; simp [cls, haa]
        unfold cls at this
        exact (List.mem_filter.mp this).1
      have hab : le a b = true := by
        rcases List.mem_cons.mp hbA with rfl | hb
        · exact hbb
        · exact (List.pairwise_cons.mp hA).1 b hb
      have hba : le b a = true := by
        rcases List.mem_cons.mp haB with rfl | ha
        · exact haa
        · exact (List.pairwise_cons.mp hB).1 a ha
      have hhead := h a
      simp only [cls, List.filter_cons, haa, hab, hba, Bool.and_self, if_true] at hhead
      have hEq : a = b := (List.cons.inj hhead).1
      subst hEq
      have htail : ∀ c, cls le c A' = cls le c B' := by
        intro c
        have hc := h c
        simp only [cls, List.filter_cons] at hc
        split at hc
        · exact (List.cons.inj hc).2
        · exact hc
      rw [eq_of_sorted_of_cls_eq trans total A' B' (List.pairwise_cons.mp hA).2 (List.pairwise_cons.mp hB).2 htail]

/-- The stable sort of a list is determined by: sorted + same equivalence classes. -/
theorem eq_mergeSort_of_sorted_of_cls (trans : ∀ a b c, le a b → le b c → le a c) (total : ∀ a b, le a b || le b a)
    (A l : List α) (hA : A.Pairwise (fun a b => le a b)) (h : ∀ c, cls le c A = cls le c l) :
    A = mergeSort l le :=
  eq_of_sorted_of_cls_eq trans total A _ hA (pairwise_mergeSort trans total l)
    (fun c => by rw [h c, cls_mergeSort trans total])

/-- Re-sorting after appending to an already sorted prefix gives the sort of everything:
`stable_sort (stable_sort xs ++ ys) = stable_sort (xs ++ ys)`. -/
theorem mergeSort_mergeSort_append (trans : ∀ a b c, le a b → le b c → le a c) (total : ∀ a b, le a b || le b a)
    (xs ys : List α) : mergeSort (mergeSort xs le ++ ys) le = mergeSort (xs ++ ys) le := by
  apply eq_mergeSort_of_sorted_of_cls trans total _ _ (pairwise_mergeSort trans total _)
  intro c
  rw [cls_mergeSort trans total, cls_append, cls_mergeSort trans total, ← cls_append]

theorem mergeSort_idem (trans : ∀ a b c, le a b → le b c → le a c) (total : ∀ a b, le a b || le b a)
    (xs : List α) : mergeSort (mergeSort xs le) le = mergeSort xs le :=
  mergeSort_of_pairwise (pairwise_mergeSort trans total xs)

end Clipper.Lemmas.StableSort
