/- Helper lemmas for C17 (marshalling model). Core Lean only. -/
import ClipperVerif.Model.Export
set_option linter.unusedSimpArgs false
namespace Clipper.Model.Export

/-! ### writer -/

theorem bind_ok {α β : Type} (a : α) (f : α → M β) : ((Except.ok a : M α) >>= f) = f a := rfl
theorem bind_error {α β : Type} (e : Fault) (f : α → M β) : ((Except.error e : M α) >>= f) = .error e := rfl

theorem putAll_append (w : Wr) (xs ys : List Int) :
    putAll w (xs ++ ys) = putAll w xs >>= fun w' => putAll w' ys := by
  induction xs generalizing w with
  | nil => rfl
  | cons x xs ih =>
    simp only [List.cons_append, putAll]
    cases h : w.put x with
    | error e => rfl
    | ok w' => simp only [bind_ok]; exact ih w'

/-- writing `xs` at the end of the written prefix `pre` succeeds iff it fits, and replaces the next cells -/
theorem putAll_ok (pre rest xs : List Int) (h : xs.length ≤ rest.length) :
    putAll ⟨pre ++ rest, pre.length⟩ xs = .ok ⟨pre ++ xs ++ rest.drop xs.length, pre.length + xs.length⟩ := by
  induction xs generalizing pre rest with
  | nil => simp [putAll]
  | cons x xs ih =>
    cases rest with
    | nil => simp at h
    | cons r rest' =>
      have hlt : pre.length < (pre ++ r :: rest').length := by simp
      simp only [putAll, Wr.put, hlt, if_true, bind_ok]
      have hset : (pre ++ r :: rest').set pre.length x = (pre ++ [x]) ++ rest' := by
        simp [List.set_append_right]
      have hlen : pre.length + 1 = (pre ++ [x]).length := by simp
      rw [hset, hlen, ih (pre ++ [x]) rest' (by simpa using h)]
      simp [Nat.add_assoc, Nat.add_comm 1]

theorem foldlM_writeVtx (p : VPath) (w : Wr) : p.foldlM writeVtx w = putAll w p.flatten := by
  induction p generalizing w with
  | nil => rfl
  | cons v p ih =>
    simp only [List.foldlM_cons, List.flatten_cons, putAll_append, writeVtx]
    cases putAll w v with
    | error e => rfl
    | ok w' => simp only [bind_ok]; exact ih w'

theorem writePath_eq (w : Wr) (p : VPath) : writePath w p = putAll w (encPath p) := by
  unfold writePath encPath
  by_cases h : p.length = 0
  · simp [h, putAll]
  · simp only [h, if_false, putAll]
    cases w.put ↑p.length with
    | error e => rfl
    | ok w1 =>
      simp only [bind_ok]
      cases w1.put 0 with
      | error e => rfl
      | ok w2 => simp only [bind_ok]; exact foldlM_writeVtx p w2

theorem foldlM_writePath (ps : VPaths) (w : Wr) : ps.foldlM writePath w = putAll w (encBody ps) := by
  induction ps generalizing w with
  | nil => rfl
  | cons p ps ih =>
    simp only [List.foldlM_cons, encBody, List.map_cons, List.flatten_cons, putAll_append, writePath_eq]
    cases putAll w (encPath p) with
    | error e => rfl
    | ok w' => simp only [bind_ok]; exact ih w'

/-! ### lengths -/

theorem flatten_length_of_dim {dim : Nat} {p : VPath} (h : ∀ v ∈ p, v.length = dim) :
    p.flatten.length = p.length * dim := by
  induction p with
  | nil => simp
  | cons v p ih =>
    have hv : v.length = dim := h v (by simp)
    have := ih (fun v hv => h v (by simp [hv]))
    simp [List.flatten_cons, hv, this, Nat.add_mul, Nat.add_comm]

theorem encPath_length {dim : Nat} {p : VPath} (h : ∀ v ∈ p, v.length = dim) :
    (encPath p).length = if p.length = 0 then 0 else p.length * dim + 2 := by
  unfold encPath
  by_cases h0 : p.length = 0
  · simp [h0]
  · simp [h0, flatten_length_of_dim h]

theorem countStep_fold (dim : Nat) (ps : VPaths) (h : WellDim dim ps) (c l : Nat) :
    ps.foldl (countStep dim) (c, l) = (c + (ps.filter (· ≠ [])).length, l + (encBody ps).length) := by
  induction ps generalizing c l with
  | nil => simp [encBody]
  | cons p ps ih =>
    have hp : ∀ v ∈ p, v.length = dim := h p (by simp)
    have hps : WellDim dim ps := fun q hq => h q (by simp [hq])
    simp only [List.foldl_cons, encBody, List.map_cons, List.flatten_cons, List.length_append]
    cases p with
    | nil => simpa [countStep, encPath, encBody] using ih hps c l
    | cons v p' =>
      have hl := encPath_length hp
      simp only [List.length_cons, Nat.add_one_ne_zero, if_false] at hl
      rw [show countStep dim (c, l) (v :: p') = (c + 1, l + ((p'.length + 1) * dim + 2)) by simp [countStep]]
      rw [ih hps]
      simp [hl, encBody, Nat.add_assoc, Nat.add_comm 1]

theorem getPathCountAndCPathsArrayLen_eq (dim : Nat) (ps : VPaths) (h : WellDim dim ps) :
    getPathCountAndCPathsArrayLen dim ps = ((ps.filter (· ≠ [])).length, (encBody ps).length + 2) := by
  unfold getPathCountAndCPathsArrayLen
  rw [countStep_fold dim ps h]; simp [Nat.add_comm]


theorem flatCPaths_length (ps : VPaths) : (flatCPaths ps).length = (encBody ps).length + 2 := by
  simp [flatCPaths]

/-- the writer never leaves its block, fills it exactly and produces the documented layout -/
theorem createCPathsW_eq (dim : Nat) (ps : VPaths) (h : WellDim dim ps) :
    createCPathsW dim ps = .ok ⟨flatCPaths ps, (flatCPaths ps).length⟩ := by
  unfold createCPathsW
  rw [getPathCountAndCPathsArrayLen_eq dim ps h]
  simp only []
  have key := putAll_ok [] (List.replicate ((encBody ps).length + 2) 0) (flatCPaths ps)
    (by simp [flatCPaths_length])
  have hfold : ∀ w0 : Wr, (w0.put (((encBody ps).length + 2 : Nat) : Int) >>= fun w =>
      w.put (((ps.filter (· ≠ [])).length : Nat) : Int) >>= fun w => ps.foldlM writePath w)
      = putAll w0 (flatCPaths ps) := by
    intro w0
    simp only [flatCPaths, putAll, foldlM_writePath]
  rw [hfold]
  simpa [Wr.alloc, flatCPaths_length] using key

/-! ### reader -/

theorem rd_at (pre : List Int) (x : Int) (post : List Int) (pos : Nat) (hpos : pos = pre.length) :
    rd (pre ++ x :: post) pos = .ok x := by
  subst hpos; simp [rd]

theorem toCount_nat (n : Nat) : toCount (n : Int) = .ok n := by
  simp [toCount]

theorem readN_ok (pre xs post : List Int) (pos : Nat) (hpos : pos = pre.length) :
    readN (pre ++ xs ++ post) xs.length pos = .ok (xs, pos + xs.length) := by
  induction xs generalizing pre pos with
  | nil => simp [readN]
  | cons x xs ih =>
    simp only [List.length_cons, readN]
    rw [show pre ++ x :: xs ++ post = pre ++ x :: (xs ++ post) by simp, rd_at pre x (xs ++ post) pos hpos]
    simp only [bind_ok]
    rw [show pre ++ x :: (xs ++ post) = (pre ++ [x]) ++ xs ++ post by simp,
        ih (pre ++ [x]) (pos + 1) (by simp [hpos])]
    simp [bind_ok, pure, Except.pure, Nat.add_assoc, Nat.add_comm 1]

theorem readVerts_ok (dim : Nat) (pre : List Int) (p : VPath) (post : List Int) (pos : Nat)
    (hpos : pos = pre.length) (h : ∀ v ∈ p, v.length = dim) :
    readVerts dim (pre ++ p.flatten ++ post) p.length pos = .ok (p, pos + p.flatten.length) := by
  induction p generalizing pre pos with
  | nil => simp [readVerts]
  | cons v p ih =>
    have hv : v.length = dim := h v (by simp)
    subst hv
    simp only [List.length_cons, readVerts, List.flatten_cons]
    rw [show pre ++ (v ++ p.flatten) ++ post = pre ++ v ++ (p.flatten ++ post) by simp]
    rw [readN_ok pre v (p.flatten ++ post) pos hpos]
    simp only [bind_ok]
    rw [show pre ++ v ++ (p.flatten ++ post) = (pre ++ v) ++ p.flatten ++ post by simp]
    rw [ih (pre ++ v) (pos + v.length) (by simp [hpos]) (fun u hu => h u (by simp [hu]))]
    simp [bind_ok, pure, Except.pure, Nat.add_assoc]

theorem encPath_ne_nil {p : VPath} (hne : p ≠ []) : encPath p = (p.length : Int) :: 0 :: p.flatten := by
  have : p.length ≠ 0 := by simpa using hne
  simp [encPath, this]

theorem readPaths_ok (dim : Nat) (pre : List Int) (ps : VPaths) (post : List Int) (pos : Nat)
    (hpos : pos = pre.length) (h : WellDim dim ps) :
    readPaths dim (pre ++ encBody ps ++ post) (ps.filter (· ≠ [])).length pos
      = .ok (ps.filter (· ≠ []), pos + (encBody ps).length) := by
  induction ps generalizing pre pos with
  | nil => simp [readPaths, encBody]
  | cons p ps ih =>
    have hp : ∀ v ∈ p, v.length = dim := h p (by simp)
    have hps : WellDim dim ps := fun q hq => h q (by simp [hq])
    by_cases hne : p = []
    · subst hne
      have := ih pre pos hpos hps
      simpa [encBody, encPath] using this
    · have henc := encPath_ne_nil hne
      have hb : encBody (p :: ps) = (p.length : Int) :: 0 :: (p.flatten ++ encBody ps) := by
        simp [encBody, henc]
      have hf : (p :: ps).filter (· ≠ []) = p :: ps.filter (· ≠ []) := by simp [hne]
      rw [hf, hb]
      simp only [List.length_cons, readPaths]
      rw [show pre ++ ((p.length : Int) :: 0 :: (p.flatten ++ encBody ps)) ++ post
            = pre ++ (p.length : Int) :: (0 :: (p.flatten ++ (encBody ps ++ post))) by simp]
      rw [rd_at pre _ _ pos hpos]
      simp only [bind_ok, toCount_nat]
      rw [show pre ++ (p.length : Int) :: (0 :: (p.flatten ++ (encBody ps ++ post)))
            = (pre ++ [(p.length : Int), 0]) ++ p.flatten ++ (encBody ps ++ post) by simp]
      rw [readVerts_ok dim (pre ++ [(p.length : Int), 0]) p _ (pos + 2) (by simp [hpos]) hp]
      simp only [bind_ok]
      rw [show (pre ++ [(p.length : Int), 0]) ++ p.flatten ++ (encBody ps ++ post)
            = ((pre ++ [(p.length : Int), 0]) ++ p.flatten) ++ encBody ps ++ post by simp]
      rw [ih _ (pos + 2 + p.flatten.length) (by simp only [List.length_append, List.length_cons, List.length_nil, hpos]) hps]
      simp only [bind_ok, pure, Except.pure, List.length_cons, List.length_append]
      congr 2; omega


/-! ### polytrees -/

mutual
theorem createCPolyPath_eq : (t : PPath) → (w : Wr) → createCPolyPath t w = putAll w (encPolyPath t)
  | .node poly kids, w => by
    simp only [createCPolyPath, encPolyPath, putAll]
    cases w.put ↑poly.length with
    | error e => rfl
    | ok w1 =>
      simp only [bind_ok]
      cases w1.put ↑kids.length with
      | error e => rfl
      | ok w2 =>
        simp only [bind_ok, foldlM_writeVtx, putAll_append]
        cases putAll w2 poly.flatten with
        | error e => rfl
        | ok w3 => simp only [bind_ok]; exact createCPolyPathList_eq kids w3
theorem createCPolyPathList_eq : (ts : List PPath) → (w : Wr) → createCPolyPathList ts w = putAll w (encPolyPathList ts)
  | [], w => by simp [createCPolyPathList, encPolyPathList, putAll]
  | t :: ts, w => by
    simp only [createCPolyPathList, encPolyPathList, putAll_append, createCPolyPath_eq t w]
    cases putAll w (encPolyPath t) with
    | error e => rfl
    | ok w' => simp only [bind_ok]; exact createCPolyPathList_eq ts w'
end

mutual
theorem encPolyPath_length (dim : Nat) : (t : PPath) → t.WellDim dim → (encPolyPath t).length = getPolyPathArrayLen dim t
  | .node poly kids, h => by
    simp only [PPath.WellDim] at h
    simp only [encPolyPath, getPolyPathArrayLen, List.length_cons, List.length_append,
      flatten_length_of_dim h.1, encPolyPathList_length dim kids h.2]
    omega
theorem encPolyPathList_length (dim : Nat) : (ts : List PPath) → PPath.WellDimList dim ts →
    (encPolyPathList ts).length = getPolyPathArrayLenList dim ts
  | [], _ => by simp [encPolyPathList, getPolyPathArrayLenList]
  | t :: ts, h => by
    simp only [PPath.WellDimList] at h
    simp only [encPolyPathList, getPolyPathArrayLenList, List.length_append,
      encPolyPath_length dim t h.1, encPolyPathList_length dim ts h.2]
end


mutual
def PPath.depth : PPath → Nat
  | .node _ kids => 1 + PPath.depthList kids
def PPath.depthList : List PPath → Nat
  | [] => 0
  | t :: ts => max (PPath.depth t) (PPath.depthList ts)
end

mutual
theorem depth_le_length : (t : PPath) → t.depth ≤ (encPolyPath t).length
  | .node poly kids => by
    have := depthList_le_length kids
    simp only [PPath.depth, encPolyPath, List.length_cons, List.length_append]; omega
theorem depthList_le_length : (ts : List PPath) → PPath.depthList ts ≤ (encPolyPathList ts).length
  | [] => by simp [PPath.depthList]
  | t :: ts => by
    have := depth_le_length t; have := depthList_le_length ts
    simp only [PPath.depthList, encPolyPathList, List.length_append]; omega
end

mutual
theorem readPolyPath_ok (dim : Nat) : (t : PPath) → ∀ (fuel : Nat) (pre post : List Int) (pos : Nat),
    pos = pre.length → t.WellDim dim → t.depth ≤ fuel →
    readPolyPath dim (pre ++ encPolyPath t ++ post) fuel pos = .ok (t, pos + (encPolyPath t).length)
  | .node poly kids, fuel, pre, post, pos, hpos, hwd, hfuel => by
    simp only [PPath.WellDim] at hwd
    simp only [PPath.depth] at hfuel
    cases fuel with
    | zero => omega
    | succ f =>
      simp only [encPolyPath, readPolyPath]
      rw [show pre ++ ((poly.length : Int) :: (kids.length : Int) :: (poly.flatten ++ encPolyPathList kids)) ++ post
            = pre ++ (poly.length : Int) :: ((kids.length : Int) :: (poly.flatten ++ (encPolyPathList kids ++ post))) by simp]
      rw [rd_at pre _ _ pos hpos]
      simp only [bind_ok, toCount_nat]
      rw [show pre ++ (poly.length : Int) :: ((kids.length : Int) :: (poly.flatten ++ (encPolyPathList kids ++ post)))
            = (pre ++ [(poly.length : Int)]) ++ (kids.length : Int) :: (poly.flatten ++ (encPolyPathList kids ++ post)) by simp]
      rw [rd_at (pre ++ [(poly.length : Int)]) _ _ (pos + 1) (by simp [hpos])]
      simp only [bind_ok, toCount_nat]
      rw [show (pre ++ [(poly.length : Int)]) ++ (kids.length : Int) :: (poly.flatten ++ (encPolyPathList kids ++ post))
            = (pre ++ [(poly.length : Int), (kids.length : Int)]) ++ poly.flatten ++ (encPolyPathList kids ++ post) by simp]
      rw [readVerts_ok dim (pre ++ [(poly.length : Int), (kids.length : Int)]) poly _ (pos + 2) (by simp [hpos]) hwd.1]
      simp only [bind_ok]
      rw [show (pre ++ [(poly.length : Int), (kids.length : Int)]) ++ poly.flatten ++ (encPolyPathList kids ++ post)
            = ((pre ++ [(poly.length : Int), (kids.length : Int)]) ++ poly.flatten) ++ encPolyPathList kids ++ post by simp]
      rw [readMany_ok dim kids f _ post (pos + 2 + poly.flatten.length)
            (by simp only [List.length_append, List.length_cons, List.length_nil, hpos]) hwd.2 (by omega)]
      simp only [bind_ok, pure, Except.pure, List.length_cons, List.length_append]
      congr 2; omega
theorem readMany_ok (dim : Nat) : (ts : List PPath) → ∀ (fuel : Nat) (pre post : List Int) (pos : Nat),
    pos = pre.length → PPath.WellDimList dim ts → PPath.depthList ts ≤ fuel →
    readMany (readPolyPath dim (pre ++ encPolyPathList ts ++ post) fuel) ts.length pos
      = .ok (ts, pos + (encPolyPathList ts).length)
  | [], fuel, pre, post, pos, hpos, _, _ => by simp [readMany, encPolyPathList]
  | t :: ts, fuel, pre, post, pos, hpos, hwd, hfuel => by
    simp only [PPath.WellDimList] at hwd
    simp only [PPath.depthList] at hfuel
    simp only [List.length_cons, readMany, encPolyPathList]
    rw [show pre ++ (encPolyPath t ++ encPolyPathList ts) ++ post = pre ++ encPolyPath t ++ (encPolyPathList ts ++ post) by simp]
    rw [readPolyPath_ok dim t fuel pre _ pos hpos hwd.1 (by omega)]
    simp only [bind_ok]
    rw [show pre ++ encPolyPath t ++ (encPolyPathList ts ++ post) = (pre ++ encPolyPath t) ++ encPolyPathList ts ++ post by simp]
    rw [readMany_ok dim ts fuel (pre ++ encPolyPath t) post (pos + (encPolyPath t).length) (by simp [hpos]) hwd.2 (by omega)]
    simp only [bind_ok, pure, Except.pure, List.length_append]
    congr 2; omega
end


theorem flatCPolyTree_length (t : PPath) : (flatCPolyTree t).length = (encPolyPathList t.kids).length + 2 := by
  simp [flatCPolyTree]

/-- `CreateCPolyTree64` on a tree with children whose root carries no polygon (every `PolyTree64` the export layer
builds): never leaves its block, fills it exactly, and produces the documented layout -/
theorem createCPolyTreeW_eq (dim : Nat) (kids : List PPath) (hk : kids ≠ []) (h : PPath.WellDimList dim kids) :
    createCPolyTreeW dim (.node [] kids) = .ok (some ⟨flatCPolyTree (.node [] kids), (flatCPolyTree (.node [] kids)).length⟩) := by
  have hk' : kids.length ≠ 0 := by simpa using hk
  have hlen : getPolyPathArrayLen dim (.node [] kids) = (encPolyPathList kids).length + 2 := by
    simp [getPolyPathArrayLen, encPolyPathList_length dim kids h, Nat.add_comm]
  have key := putAll_ok [] (List.replicate ((encPolyPathList kids).length + 2) 0) (flatCPolyTree (.node [] kids))
    (by simp [flatCPolyTree, PPath.kids])
  have hfold : ∀ w0 : Wr, (w0.put (((encPolyPathList kids).length + 2 : Nat) : Int) >>= fun w =>
      w.put (kids.length : Int) >>= fun w => createCPolyPathList kids w >>= fun w => pure (some w))
      = (putAll w0 (flatCPolyTree (.node [] kids))).map some := by
    intro w0
    simp only [flatCPolyTree, PPath.kids, putAll, createCPolyPathList_eq]
    cases w0.put _ with
    | error e => rfl
    | ok w1 =>
      simp only [bind_ok]
      cases w1.put _ with
      | error e => rfl
      | ok w2 =>
        simp only [bind_ok]
        cases putAll w2 (encPolyPathList kids) <;> rfl
  unfold createCPolyTreeW
  simp only [PPath.kids, hk', if_false, hlen]
  rw [hfold]
  simp only [Wr.alloc]
  have := key
  simp only [List.nil_append, List.length_nil, Nat.zero_add] at this
  rw [this]
  simp [Except.map, flatCPolyTree_length, PPath.kids]

/-! ### the scaling writer -/

theorem scaleVtx_length (k : Int) (v : Vtx) : (scaleVtx k v).length = v.length := by
  unfold scaleVtx; split <;> simp

theorem writePathScaled_eq (k : Int) (w : Wr) (p : VPath) :
    writePathScaled k w p = writePath w (p.map (scaleVtx k)) := by
  simp only [writePathScaled, writePath, List.length_map, List.foldlM_map]

theorem countStep_map (dim : Nat) (f : Vtx → Vtx) (ps : VPaths) (acc : Nat × Nat) :
    (ps.map (·.map f)).foldl (countStep dim) acc = ps.foldl (countStep dim) acc := by
  induction ps generalizing acc with
  | nil => rfl
  | cons p ps ih => simp only [List.map_cons, List.foldl_cons]; rw [show countStep dim acc (p.map f) = countStep dim acc p by simp [countStep]]; exact ih _

/-- `CreateCPathsDFromPaths64(paths, scale)` is the plain writer applied to the scaled vertices -/
theorem createCPathsDFromPaths64_eq (dim : Nat) (k : Int) (ps : VPaths) :
    createCPathsDFromPaths64 dim k ps = createCPathsD dim (ps.map (·.map (scaleVtx k))) := by
  unfold createCPathsDFromPaths64 createCPathsDFromPaths64W createCPathsD createCPaths createCPathsW getPathCountAndCPathsArrayLen
  by_cases h0 : ps.length = 0
  · simp [h0, Except.map]
  · simp only [h0, if_false, List.length_map, countStep_map]
    have : ∀ w : Wr, ps.foldlM (writePathScaled k) w = (ps.map (·.map (scaleVtx k))).foldlM writePath w := by
      intro w; rw [List.foldlM_map]; congr 1; funext w p; exact writePathScaled_eq k w p
    simp only [this]
    cases (Wr.alloc _).put _ with
    | error e => rfl
    | ok w1 =>
      simp only [bind_ok]
      cases w1.put _ with
      | error e => rfl
      | ok w2 =>
        simp only [bind_ok]
        cases List.foldlM writePath w2 _ <;> rfl

theorem wellDim_scale (dim : Nat) (k : Int) (ps : VPaths) (h : WellDim dim ps) : WellDim dim (ps.map (·.map (scaleVtx k))) := by
  intro p hp v hv
  simp only [List.mem_map] at hp
  obtain ⟨q, hq, rfl⟩ := hp
  simp only [List.mem_map] at hv
  obtain ⟨u, hu, rfl⟩ := hv
  rw [scaleVtx_length]; exact h q hq u hu

end Clipper.Model.Export
