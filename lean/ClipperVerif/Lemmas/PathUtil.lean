/- Helper lemmas for Props/C20.lean (path utilities). -/
import ClipperVerif.Model.PathUtil
import ClipperVerif.Props.C18
namespace Clipper.Lemmas.PathUtil
open Clipper Clipper.Model.PathUtil

/-! ### the Spec's `isSubseq` is `List.Sublist` -/

theorem isSubseq_iff_sublist (a b : List Pt) : isSubseq a b = true ↔ List.Sublist a b := by
  induction b generalizing a with
  | nil => cases a <;> simp [isSubseq]
  | cons y ys ih =>
    cases a with
    | nil => simp [isSubseq]
    | cons x xs =>
      simp only [isSubseq]
      by_cases h : x = y
      · subst h; simp [ih, List.cons_sublist_cons]
      · simp only [h, if_false, ih]
        constructor
        · intro hs; exact List.Sublist.cons _ hs
        · intro hs
          cases hs with
          | cons _ h' => exact h'
          | cons_cons _ _ => exact absurd rfl h

/-! ### collinearity -/

theorem isCollinear_iff (p1 s p2 : Pt) :
    isCollinear p1 s p2 = true ↔ (s.x - p1.x) * (p2.y - s.y) = (s.y - p1.y) * (p2.x - s.x) := by
  unfold isCollinear; exact Clipper.Props.C18.isCollinear_int128_exact _ _ _ _ _ _

/-! ### TrimCollinear: sublist facts -/

theorem trimFront_sublist (last : Pt) (l : List Pt) : List.Sublist (trimFront last l) l := by
  fun_induction trimFront last l with
  | case1 a b rest h ih => exact List.Sublist.cons _ ih
  | case2 a b rest h => exact List.Sublist.refl _
  | case3 l h => exact List.Sublist.refl _

theorem trimBackRev_sublist (first : Pt) (l : List Pt) : List.Sublist (trimBackRev first l) l := by
  fun_induction trimBackRev first l with
  | case1 z y rest h ih => exact List.Sublist.cons _ ih
  | case2 z y rest h => exact List.Sublist.refl _
  | case3 l h => exact List.Sublist.refl _

theorem trimPopRev_sublist (first : Pt) (l : List Pt) : List.Sublist (trimPopRev first l) l := by
  fun_induction trimPopRev first l with
  | case1 z y w rest h ih => exact List.Sublist.cons _ ih
  | case2 z y w rest h => exact List.Sublist.refl _
  | case3 l h => exact List.Sublist.refl _

theorem trimLoop_sublist (prev cur : Pt) (l : List Pt) :
    List.Sublist ((trimLoop prev cur l).1 ++ [(trimLoop prev cur l).2.2]) (cur :: l) := by
  induction l generalizing prev cur with
  | nil => simp [trimLoop]
  | cons n rest ih =>
    simp only [trimLoop]
    split
    · exact List.Sublist.cons _ (ih prev n)
    · exact List.Sublist.cons_cons _ (ih cur n)

theorem trimLoop_stop (prev cur : Pt) (l : List Pt) :
    (cur :: l).getLast? = some (trimLoop prev cur l).2.2 := by
  induction l generalizing prev cur with
  | nil => simp [trimLoop]
  | cons n rest ih =>
    simp only [trimLoop]
    split
    · rw [← ih prev n]; simp [List.getLast?_cons_cons]
    · rw [← ih cur n]; simp [List.getLast?_cons_cons]

theorem trimClosedBody_sublist (seg : List Pt) : List.Sublist (trimClosedBody seg) seg := by
  unfold trimClosedBody
  split
  · rename_i a c rest
    have h := trimLoop_sublist a c rest
    simp only []
    split
    · exact List.Sublist.cons_cons _ h
    · split
      · exact List.nil_sublist _
      · refine List.Sublist.trans (List.reverse_sublist.mpr (trimPopRev_sublist _ _)) ?_
        rw [List.reverse_reverse]
        exact List.Sublist.cons_cons _ (List.Sublist.trans (List.sublist_append_left _ _) h)
  · exact List.nil_sublist _

theorem trimEnds_sublist (p : List Pt) : List.Sublist (trimEnds p) p := by
  unfold trimEnds
  split
  · exact List.nil_sublist _
  · rename_i last _
    have h1 := trimFront_sublist last p
    simp only []
    split
    · exact List.nil_sublist _
    · rename_i first t heq
      refine List.Sublist.trans (List.reverse_sublist.mpr (trimBackRev_sublist _ _)) ?_
      rw [List.reverse_reverse]; exact h1

theorem trimCollinear_sublist (p : List Pt) (o : Bool) : List.Sublist (trimCollinear p o) p := by
  unfold trimCollinear
  split
  · split
    · split
      · split
        · exact List.nil_sublist _
        · exact List.Sublist.refl _
      · exact List.nil_sublist _
    · exact List.nil_sublist _
  · split
    · split
      · exact List.Sublist.cons_cons _ (trimLoop_sublist _ _ _)
      · exact List.nil_sublist _
    · exact List.Sublist.trans (trimClosedBody_sublist _) (trimEnds_sublist _)

/-! ### flag selection -/

theorem selectFlags_sublist (k : Bool) (p : List Pt) (f : List Bool) : List.Sublist (selectFlags k p f) p := by
  induction p generalizing f with
  | nil => simp [selectFlags]
  | cons a ps ih =>
    cases f with
    | nil => simp [selectFlags]
    | cons b fs =>
      simp only [selectFlags]
      split
      · exact List.Sublist.cons_cons _ (ih fs)
      · exact List.Sublist.cons _ (ih fs)

/-! ### RDP -/

variable {D : Type}

/-- what the theorems need from the compared doubles -/
structure DistLaws (ops : DistOps D) : Prop where
  total : ∀ a b, ops.le a b = true ∨ ops.le b a = true
  trans : ∀ a b c, ops.le a b = true → ops.le b c = true → ops.le a c = true
  /-- `PerpendicDistFromLineSqrd(pt, l1, l2)` is `0` when `pt` is `l1` or `l2` -/
  ends_zero : ∀ a b, ops.le (ops.dist2 a a b) ops.zero = true ∧ ops.le (ops.dist2 b a b) ops.zero = true

def Kept (flags : List Bool) (i : Nat) : Prop := flags[i]? = some true
def Dropped (flags : List Bool) (i : Nat) : Prop := flags[i]? = some false

theorem rdpShrink_id (path : List Pt) (b e : Nat)
    (h : e ≤ b ∨ nth path b ≠ nth path e) : rdpShrink path b e = e := by
  cases e with
  | zero => rfl
  | succ e =>
    simp only [rdpShrink]
    rw [if_neg]
    intro ⟨h1, h2⟩
    cases h with
    | inl h => omega
    | inr h => exact h h2

/-- the `while` loop at the head of `RDP`: the new `end` stays in `[begin, end]`, everything it skipped equals
`path[begin]`, and `path[begin] ≠ path[end']` unless `end' = begin` -/
theorem rdpShrink_spec (path : List Pt) (b e : Nat) (hbe : b ≤ e) :
    b ≤ rdpShrink path b e ∧ rdpShrink path b e ≤ e ∧
    (∀ j, rdpShrink path b e < j → j ≤ e → nth path j = nth path b) ∧
    (b < rdpShrink path b e → nth path b ≠ nth path (rdpShrink path b e)) := by
  induction e with
  | zero =>
    have e0 : rdpShrink path b 0 = 0 := rfl
    rw [e0]
    exact ⟨hbe, Nat.le_refl _, fun j h1 h2 => by omega, fun h => by omega⟩
  | succ e ih =>
    simp only [rdpShrink]
    split
    · rename_i hc
      obtain ⟨h1, h2, h3, h4⟩ := ih (by omega)
      refine ⟨h1, by omega, ?_, h4⟩
      intro j hj1 hj2
      by_cases hje : j = e + 1
      · rw [hje]; exact hc.2.symm
      · exact h3 j hj1 (by omega)
    · rename_i hc
      refine ⟨hbe, Nat.le_refl _, fun j h1 h2 => by omega, fun hb he => hc ⟨hb, he⟩⟩

/-- setting a flag that is already set changes nothing -/
theorem set_kept (flags : List Bool) (e : Nat) (h : flags[e]? = some true) : flags.set e true = flags := by
  apply List.ext_getElem?
  intro j
  rw [List.getElem?_set]
  split
  · rename_i he; subst he
    rw [h]; split
    · rfl
    · rename_i hl
      have := (List.getElem?_eq_some_iff.mp h).1
      exact absurd this hl
  · rfl

theorem rdpMax_fold (ops : DistOps D) (L : DistLaws ops) (d : Nat → D) (is : List Nat) (acc : Nat × D) :
    ops.le acc.2 (is.foldl (fun acc i => if ops.le (d i) acc.2 then acc else (i, d i)) acc).2 = true ∧
    (∀ i ∈ is, ops.le (d i) (is.foldl (fun acc i => if ops.le (d i) acc.2 then acc else (i, d i)) acc).2 = true) ∧
    ((is.foldl (fun acc i => if ops.le (d i) acc.2 then acc else (i, d i)) acc) = acc ∨
      ((is.foldl (fun acc i => if ops.le (d i) acc.2 then acc else (i, d i)) acc).1 ∈ is ∧
       (is.foldl (fun acc i => if ops.le (d i) acc.2 then acc else (i, d i)) acc).2
          = d (is.foldl (fun acc i => if ops.le (d i) acc.2 then acc else (i, d i)) acc).1 ∧
       ops.le (is.foldl (fun acc i => if ops.le (d i) acc.2 then acc else (i, d i)) acc).2 acc.2 = false)) := by
  induction is generalizing acc with
  | nil =>
    simp only [List.foldl_nil]
    refine ⟨?_, by simp, by simp⟩
    cases L.total acc.2 acc.2 <;> assumption
  | cons i rest ih =>
    simp only [List.foldl_cons]
    by_cases hle : ops.le (d i) acc.2 = true
    · rw [if_pos hle]
      obtain ⟨h1, h2, h3⟩ := ih acc
      refine ⟨h1, ?_, ?_⟩
      · intro j hj
        cases List.mem_cons.mp hj with
        | inl h => subst h; exact L.trans _ _ _ hle h1
        | inr h => exact h2 j h
      · cases h3 with
        | inl h => exact Or.inl h
        | inr h => exact Or.inr ⟨List.mem_cons_of_mem _ h.1, h.2.1, h.2.2⟩
    · rw [if_neg hle]
      have hacc : ops.le acc.2 (d i) = true := by
        cases L.total acc.2 (d i) with
        | inl h => exact h
        | inr h => exact absurd h hle
      obtain ⟨h1, h2, h3⟩ := ih (i, d i)
      simp only [] at h1 h3
      refine ⟨L.trans _ _ _ hacc h1, ?_, ?_⟩
      · intro j hj
        cases List.mem_cons.mp hj with
        | inl h => subst h; exact h1
        | inr h => exact h2 j h
      · refine Or.inr ?_
        cases h3 with
        | inl h =>
          rw [h]
          refine ⟨List.mem_cons_self, rfl, ?_⟩
          simp only []
          cases hh : ops.le (d i) acc.2
          · rfl
          · exact absurd hh hle
        | inr h =>
          refine ⟨List.mem_cons_of_mem _ h.1, h.2.1, ?_⟩
          cases hh : ops.le (List.foldl (fun acc i => if ops.le (d i) acc.2 = true then acc else (i, d i)) (i, d i) rest).2 acc.2
          · rfl
          · have := L.trans _ _ _ hh hacc
            rw [h.2.2] at this; exact absurd this (by simp)

theorem rdpMax_spec (ops : DistOps D) (L : DistLaws ops) (path : List Pt) (b e : Nat) :
    (∀ i, b < i → i < e →
      ops.le (ops.dist2 (nth path i) (nth path b) (nth path e)) (rdpMax ops path b e).2 = true) ∧
    (rdpMax ops path b e = (0, ops.zero) ∨
      (b < (rdpMax ops path b e).1 ∧ (rdpMax ops path b e).1 < e ∧
        (rdpMax ops path b e).2 = ops.dist2 (nth path (rdpMax ops path b e).1) (nth path b) (nth path e) ∧
        ops.le (rdpMax ops path b e).2 ops.zero = false)) := by
  obtain ⟨_, h2, h3⟩ := rdpMax_fold ops L (fun i => ops.dist2 (nth path i) (nth path b) (nth path e))
    (List.range' (b + 1) (e - (b + 1))) (0, ops.zero)
  have hdef : rdpMax ops path b e = List.foldl (fun acc i =>
      if ops.le (ops.dist2 (nth path i) (nth path b) (nth path e)) acc.2 then acc
      else (i, ops.dist2 (nth path i) (nth path b) (nth path e))) (0, ops.zero)
      (List.range' (b + 1) (e - (b + 1))) := rfl
  rw [hdef]
  refine ⟨?_, ?_⟩
  · intro i hbi hie
    exact h2 i (by rw [List.mem_range'_1]; omega)
  · cases h3 with
    | inl h => exact Or.inl h
    | inr h =>
      refine Or.inr ?_
      have hm := h.1
      rw [List.mem_range'_1] at hm
      exact ⟨by omega, by omega, h.2.1, h.2.2⟩

def SegOk (ops : DistOps D) (path : List Pt) (eps : D) (flags : List Bool) (b e : Nat) : Prop :=
  ∀ i, b < i → i < e → Dropped flags i →
    ∃ l r, b ≤ l ∧ l < i ∧ i < r ∧ r ≤ e ∧ Kept flags l ∧ Kept flags r ∧
      (∀ j, l < j → j < r → Dropped flags j) ∧
      ops.le (ops.dist2 (nth path i) (nth path l) (nth path r)) eps = true

theorem getElem?_set_true (flags : List Bool) (idx j : Nat) (h : idx < flags.length) :
    (flags.set idx true)[j]? = if idx = j then some true else flags[j]? := by
  rw [List.getElem?_set]; split <;> simp_all

/-- Specification of one call `RDP(path, begin, end, epsSqrd, flags)` whose end points differ (so that the
`while` loop at its head does nothing and `flags[end] = true` re-sets a set flag): flags outside `(begin, end)` are untouched and every vertex left
unflagged inside is within `eps` of the line through the nearest flagged vertices on either side. -/
theorem rdp_spec (ops : DistOps D) (L : DistLaws ops) (path : List Pt) (eps : D)
    (hz : ops.le ops.zero eps = true) :
    ∀ (fuel b e : Nat) (flags : List Bool), e - b < fuel → b ≤ e → e < flags.length →
      Kept flags b → Kept flags e → (∀ j, b < j → j < e → Dropped flags j) →
      (b < e → nth path b ≠ nth path e) →
      (rdp ops path eps fuel b e flags).length = flags.length ∧
      (∀ j, (j ≤ b ∨ e ≤ j) → (rdp ops path eps fuel b e flags)[j]? = flags[j]?) ∧
      SegOk ops path eps (rdp ops path eps fuel b e flags) b e := by
  intro fuel
  induction fuel with
  | zero => intro b e flags h; omega
  | succ fuel ih =>
    intro b e flags hfuel hbe hlen hKb hKe hmid hne
    simp only [rdp]
    rw [rdpShrink_id path b e (by
      by_cases h : b < e
      · exact Or.inr (hne h)
      · exact Or.inl (by omega))]
    rw [set_kept flags e hKe]
    obtain ⟨hall, hcase⟩ := rdpMax_spec ops L path b e
    generalize rdpMax ops path b e = m at hall hcase
    obtain ⟨idx, md⟩ := m
    simp only [] at hall hcase
    by_cases hle : ops.le md eps = true
    · rw [if_pos hle]
      refine ⟨rfl, fun _ _ => rfl, ?_⟩
      intro i hbi hie _
      exact ⟨b, e, Nat.le_refl _, hbi, hie, Nat.le_refl _, hKb, hKe, hmid, L.trans _ _ _ (hall i hbi hie) hle⟩
    · rw [if_neg hle]
      have hcase' : b < idx ∧ idx < e ∧ md = ops.dist2 (nth path idx) (nth path b) (nth path e) ∧
          ops.le md ops.zero = false := by
        cases hcase with
        | inl h =>
          have : md = ops.zero := by injection h
          subst this; exact absurd hz hle
        | inr h => exact h
      obtain ⟨hbi, hie, hmd, hpos⟩ := hcase'
      have hneb : nth path b ≠ nth path idx := by
        intro heq
        have := (L.ends_zero (nth path b) (nth path e)).1
        rw [← heq] at hmd
        rw [← hmd, hpos] at this; exact absurd this (by simp)
      have hnee : nth path idx ≠ nth path e := by
        intro heq
        have := (L.ends_zero (nth path b) (nth path e)).2
        rw [heq] at hmd
        rw [← hmd, hpos] at this; exact absurd this (by simp)
      have hidxlen : idx < flags.length := by omega
      have hset : ∀ j, (flags.set idx true)[j]? = if idx = j then some true else flags[j]? :=
        fun j => getElem?_set_true flags idx j hidxlen
      -- first recursive call
      have hA : ∃ f2 : List Bool,
          (if idx > b + 1 then rdp ops path eps fuel b idx (flags.set idx true) else flags.set idx true) = f2 ∧
          f2.length = flags.length ∧
          (∀ j, (j ≤ b ∨ idx ≤ j) → f2[j]? = (flags.set idx true)[j]?) ∧
          SegOk ops path eps f2 b idx := by
        by_cases hc : idx > b + 1
        · rw [if_pos hc]
          obtain ⟨h1, h2, h3⟩ := ih b idx (flags.set idx true) (by omega) (by omega)
            (by rw [List.length_set]; exact hidxlen)
            (by unfold Kept; rw [hset, if_neg (by omega)]; exact hKb)
            (by unfold Kept; rw [hset, if_pos rfl])
            (by intro j h1 h2; unfold Dropped; rw [hset, if_neg (by omega)]; exact hmid j h1 (by omega))
            (fun _ => hneb)
          exact ⟨_, rfl, by rw [h1, List.length_set], h2, h3⟩
        · rw [if_neg hc]
          refine ⟨_, rfl, by rw [List.length_set], fun _ _ => rfl, ?_⟩
          intro i h1 h2 _; omega
      obtain ⟨f2, hf2, hlen2, hfr2, hseg2⟩ := hA
      rw [hf2]
      have hf2at : ∀ j, (j ≤ b ∨ idx ≤ j) → f2[j]? = if idx = j then some true else flags[j]? :=
        fun j hj => by rw [hfr2 j hj, hset]
      have hB : ∃ f3 : List Bool,
          (if idx < e - 1 then rdp ops path eps fuel idx e f2 else f2) = f3 ∧
          f3.length = flags.length ∧
          (∀ j, (j ≤ idx ∨ e ≤ j) → f3[j]? = f2[j]?) ∧
          SegOk ops path eps f3 idx e := by
        by_cases hc : idx < e - 1
        · rw [if_pos hc]
          obtain ⟨h1, h2, h3⟩ := ih idx e f2 (by omega) (by omega) (by omega)
            (by unfold Kept; rw [hf2at idx (Or.inr (Nat.le_refl _)), if_pos rfl])
            (by unfold Kept; rw [hf2at e (Or.inr (by omega)), if_neg (by omega)]; exact hKe)
            (by intro j h1 h2; unfold Dropped; rw [hf2at j (Or.inr (by omega)), if_neg (by omega)]
                exact hmid j (by omega) h2)
            (fun _ => hnee)
          exact ⟨_, rfl, by rw [h1, hlen2], h2, h3⟩
        · rw [if_neg hc]
          refine ⟨_, rfl, hlen2, fun _ _ => rfl, ?_⟩
          intro i h1 h2 _; omega
      obtain ⟨f3, hf3, hlen3, hfr3, hseg3⟩ := hB
      rw [hf3]
      refine ⟨hlen3, ?_, ?_⟩
      · intro j hj
        rw [hfr3 j (by omega), hf2at j (by omega), if_neg (by omega)]
      · intro i h1 h2 hd
        by_cases hi : i < idx
        · have hd2 : Dropped f2 i := by unfold Dropped; rw [← hfr3 i (by omega)]; exact hd
          obtain ⟨l, r, hl1, hl2, hr1, hr2, hkl, hkr, hbetween, hdist⟩ := hseg2 i h1 hi hd2
          refine ⟨l, r, hl1, hl2, hr1, by omega, ?_, ?_, ?_, hdist⟩
          · unfold Kept; rw [hfr3 l (by omega)]; exact hkl
          · unfold Kept; rw [hfr3 r (by omega)]; exact hkr
          · intro j hj1 hj2; unfold Dropped; rw [hfr3 j (by omega)]; exact hbetween j hj1 hj2
        · by_cases hi2 : i = idx
          · subst hi2
            unfold Dropped at hd
            rw [hfr3 i (by omega), hf2at i (Or.inr (Nat.le_refl _)), if_pos rfl] at hd
            exact absurd hd (by simp)
          · obtain ⟨l, r, hl1, hl2, hr1, hr2, hkl, hkr, hbetween, hdist⟩ := hseg3 i (by omega) h2 hd
            exact ⟨l, r, by omega, hl2, hr1, hr2, hkl, hkr, hbetween, hdist⟩

theorem rdp_shrink_eq (ops : DistOps D) (path : List Pt) (eps : D) (fuel b e : Nat) (flags : List Bool)
    (hbe : b ≤ e) :
    rdp ops path eps (fuel + 1) b e flags
      = rdp ops path eps (fuel + 1) b (rdpShrink path b e) (flags.set (rdpShrink path b e) true) := by
  obtain ⟨h1, _, _, h4⟩ := rdpShrink_spec path b e hbe
  have hid : rdpShrink path b (rdpShrink path b e) = rdpShrink path b e :=
    rdpShrink_id path b _ (by
      by_cases h : b < rdpShrink path b e
      · exact Or.inr (h4 h)
      · exact Or.inl (by omega))
  simp only [rdp, hid, List.set_set]

/-- Specification of `RDP(path, begin, end, epsSqrd, flags)` for arbitrary end points (they may be equal points): the
leading `while` loop moves `end` back to `end'` over copies of `path[begin]`, `flags[end']` is set, and the vertices it
skipped are copies of `path[end]`, hence at distance 0 from the line through `path[end']`, `path[end]`. -/
theorem rdp_spec_full (ops : DistOps D) (L : DistLaws ops) (path : List Pt) (eps : D)
    (hz : ops.le ops.zero eps = true)
    (fuel b e : Nat) (flags : List Bool) (hfuel : e - b < fuel) (hbe : b ≤ e) (hlen : e < flags.length)
    (hKb : Kept flags b) (hKe : Kept flags e) (hmid : ∀ j, b < j → j < e → Dropped flags j) :
    (rdp ops path eps fuel b e flags).length = flags.length ∧
    (∀ j, (j ≤ b ∨ e ≤ j) → (rdp ops path eps fuel b e flags)[j]? = flags[j]?) ∧
    SegOk ops path eps (rdp ops path eps fuel b e flags) b e := by
  cases fuel with
  | zero => omega
  | succ fuel =>
    rw [rdp_shrink_eq ops path eps fuel b e flags hbe]
    obtain ⟨h1, h2, h3, h4⟩ := rdpShrink_spec path b e hbe
    generalize rdpShrink path b e = e' at h1 h2 h3 h4
    have he'len : e' < flags.length := by omega
    have hset : ∀ j, (flags.set e' true)[j]? = if e' = j then some true else flags[j]? :=
      fun j => getElem?_set_true flags e' j he'len
    obtain ⟨g1, g2, g3⟩ := rdp_spec ops L path eps hz (fuel + 1) b e' (flags.set e' true) (by omega) h1
      (by rw [List.length_set]; exact he'len)
      (by unfold Kept; rw [hset]; split
          · rfl
          · exact hKb)
      (by unfold Kept; rw [hset, if_pos rfl])
      (by intro j hj1 hj2; unfold Dropped; rw [hset, if_neg (by omega)]; exact hmid j hj1 (by omega))
      h4
    refine ⟨by rw [g1, List.length_set], ?_, ?_⟩
    · intro j hj
      rw [g2 j (by omega), hset]
      split
      · rename_i he; subst he
        cases hj with
        | inl hj => have : e' = b := by omega
                    subst this; exact hKb.symm
        | inr hj => have : e' = e := by omega
                    subst this; exact hKe.symm
      · rfl
    · intro i hbi hie hd
      by_cases hi1 : i < e'
      · obtain ⟨l, r, a1, a2, a3, a4, a5, a6, a7, a8⟩ := g3 i hbi hi1 hd
        exact ⟨l, r, a1, a2, a3, by omega, a5, a6, a7, a8⟩
      · by_cases hi2 : i = e'
        · subst hi2
          unfold Dropped at hd
          rw [g2 i (Or.inr (Nat.le_refl _)), hset, if_pos rfl] at hd
          exact absurd hd (by simp)
        · -- `i` was skipped by the `while` loop: it is a copy of `path[begin] = path[end]`
          have hie' : e' < i := by omega
          refine ⟨e', e, h1, hie', hie, Nat.le_refl _, ?_, ?_, ?_, ?_⟩
          · unfold Kept; rw [g2 e' (Or.inr (Nat.le_refl _)), hset, if_pos rfl]
          · unfold Kept; rw [g2 e (Or.inr h2), hset, if_neg (by omega)]; exact hKe
          · intro j hj1 hj2; unfold Dropped
            rw [g2 j (Or.inr (by omega)), hset, if_neg (by omega)]; exact hmid j (by omega) hj2
          · have e1 : nth path i = nth path e := by
              rw [h3 i hie' (by omega), h3 e (by omega) (Nat.le_refl _)]
            rw [e1]
            exact L.trans _ _ _ (L.ends_zero (nth path e') (nth path e)).2 hz

theorem selectFlags_head (k : Bool) (p : List Pt) (f : List Bool) (h : f[0]? = some k) :
    (selectFlags k p f).head? = p.head? := by
  cases p with
  | nil => cases f <;> simp [selectFlags]
  | cons a ps =>
    cases f with
    | nil => simp at h
    | cons b fs =>
      simp only [List.getElem?_cons_zero, Option.some.injEq] at h
      subst h; simp [selectFlags]

theorem selectFlags_getLast (k : Bool) (p : List Pt) (f : List Bool) (hl : f.length = p.length)
    (h : f[p.length - 1]? = some k) : (selectFlags k p f).getLast? = p.getLast? := by
  induction p generalizing f with
  | nil => cases f <;> simp [selectFlags]
  | cons a ps ih =>
    cases f with
    | nil => simp at hl
    | cons b fs =>
      cases ps with
      | nil =>
        cases fs with
        | nil =>
          simp only [List.length_cons, List.length_nil, Nat.zero_add, Nat.sub_self,
            List.getElem?_cons_zero, Option.some.injEq] at h
          subst h; simp [selectFlags]
        | cons _ _ => simp at hl
      | cons c ps' =>
        have hl' : fs.length = (c :: ps').length := by simpa using hl
        have h' : fs[(c :: ps').length - 1]? = some k := by
          simp only [List.length_cons, Nat.add_sub_cancel] at h ⊢
          rw [List.getElem?_cons_succ] at h; exact h
        have := ih fs hl' h'
        have hne : (c :: ps').getLast? = some ((c :: ps').getLast (by simp)) := List.getLast?_eq_some_getLast _
        simp only [selectFlags]
        split
        · rw [List.getLast?_cons, this, hne, List.getLast?_cons_cons, hne]; rfl
        · rw [this, List.getLast?_cons_cons]

theorem initFlags_spec (n : Nat) (hn : 1 ≤ n) :
    let f := ((List.replicate n false).set 0 true).set (n - 1) true
    f.length = n ∧ Kept f 0 ∧ Kept f (n - 1) ∧ (∀ j, 0 < j → j < n - 1 → Dropped f j) := by
  refine ⟨by simp, ?_, ?_, ?_⟩
  · unfold Kept; rw [List.getElem?_set, List.getElem?_set]; simp
    by_cases h0 : n - 1 = 0
    · rw [if_pos h0, if_pos (by omega)]
    · rw [if_neg h0, if_pos (by omega)]
  · unfold Kept; rw [List.getElem?_set]; simp; omega
  · intro j h1 h2; unfold Dropped
    rw [List.getElem?_set, List.getElem?_set, List.getElem?_replicate]
    rw [if_neg (by omega), if_neg (by omega), if_pos (by omega)]

end Clipper.Lemmas.PathUtil
