-- Root of the `ClipperVerif` library: every module that must build.
import ClipperVerif.Spec.Basic
import ClipperVerif.Driver.All
import ClipperVerif.Props.C18
import ClipperVerif.Props.C02
import ClipperVerif.Props.C13Spec
import ClipperVerif.Props.C01
import ClipperVerif.Props.C05
import ClipperVerif.Props.C13
import ClipperVerif.Props.C11
import ClipperVerif.Props.C18Geom
import ClipperVerif.Props.C06
import ClipperVerif.Props.C07
import ClipperVerif.Props.C17
import ClipperVerif.Props.C11Export
import ClipperVerif.Props.C20
