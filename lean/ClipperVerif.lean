-- Root of the `ClipperVerif` library: every module that must build.
import ClipperVerif.Spec.Basic
import ClipperVerif.Driver.All
import ClipperVerif.Props.C18
